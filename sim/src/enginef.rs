//! Engine F: the fibre scheduler, the event hook and the always-on monitors.
//!
//! One run = one `Ctx` installed in a thread-local; parties are fibres created by the scenario and
//! driven by [`run`]. Every scheduling decision is drawn from the run's tape.

use crate::clock;
use crate::fiber::{self, Fibre};
use crate::hb::{self, Hb};
use crate::rng::TraceHash;
use crate::tape::Tape;
use ethercrab::verif::{self, Event, Kind, Loc, MemOrder};
use ethercrab::PduLoop;
use std::cell::RefCell;
use std::collections::{BTreeMap, HashSet};
use std::sync::atomic::{AtomicBool, Ordering};
use std::sync::Arc;
use std::task::{Wake, Waker};

/// A wake-up flag: the only thing a simulated waker does is set it.
pub struct Flag(pub AtomicBool);

impl Wake for Flag {
    fn wake(self: Arc<Self>) {
        self.0.store(true, Ordering::SeqCst);
    }
    fn wake_by_ref(self: &Arc<Self>) {
        self.0.store(true, Ordering::SeqCst);
    }
}

impl Flag {
    pub fn new() -> Arc<Flag> {
        Arc::new(Flag(AtomicBool::new(false)))
    }
    pub fn take(&self) -> bool {
        self.0.swap(false, Ordering::SeqCst)
    }
    pub fn is_set(&self) -> bool {
        self.0.load(Ordering::SeqCst)
    }
    pub fn set(&self) {
        self.0.store(true, Ordering::SeqCst);
    }
}

pub fn waker_of(flag: &Arc<Flag>) -> Waker {
    Waker::from(flag.clone())
}

#[derive(Clone, Copy, Debug, PartialEq, Eq)]
pub enum Status {
    Runnable,
    /// Waiting for its wake flag.
    Parked,
    Done,
}

#[derive(Clone, Copy, Debug, PartialEq, Eq)]
pub enum PartyKind {
    App,
    Tx,
    Rx,
    Aux,
}

pub struct Party {
    pub name: String,
    pub kind: PartyKind,
    pub status: Status,
    pub wake: Arc<Flag>,
    pub last_site: u16,
    /// Last non-primitive site (function-level context) this party passed.
    pub ctx_site: u16,
    /// PCT priority (higher runs first).
    pub prio: i64,
}

#[derive(Clone, Debug)]
pub enum Strategy {
    /// Keep running the current party with probability `stay`/100, otherwise uniform.
    Random { stay: u32 },
    /// Pre-empt with high probability at the chosen sites, almost never elsewhere.
    SiteBiased { sites: Vec<u16>, stay_elsewhere: u32 },
    /// PCT: strict priorities, with priority drops at the given scheduling-point numbers.
    Pct { change_points: Vec<u64> },
}

#[derive(Clone, Copy, Debug, PartialEq, Eq)]
pub enum TransMode {
    Off,
    /// Only the documented lifecycle is legal.
    Documented,
    /// Documented plus the release/retry edges of deadlines, abandonment and reset.
    WithDeadlines,
}

#[derive(Clone, Debug)]
pub struct Anomaly {
    pub clause: &'static str,
    pub detail: String,
    pub step: u64,
    /// Instrumentation sites involved (for signatures).
    pub sites: Vec<u16>,
}

#[derive(Clone, Copy, Debug)]
pub struct SlotMap {
    pub base: usize,
    pub stride: usize,
    pub n: usize,
    pub buf_off: usize,
    pub frame_len: usize,
}

impl SlotMap {
    pub fn from_pdu_loop(pl: &PduLoop<'_>) -> Self {
        let n = verif::num_slots(pl);
        let i0 = verif::slot_info(pl, 0);
        let stride = if n > 1 {
            verif::slot_info(pl, 1).frame_addr - i0.frame_addr
        } else {
            (i0.buf_addr - i0.frame_addr) + verif::frame_len(pl)
        };
        SlotMap {
            base: i0.frame_addr,
            stride,
            n,
            buf_off: i0.buf_addr - i0.frame_addr,
            frame_len: verif::frame_len(pl),
        }
    }

    /// Map an absolute address to (slot, offset relative to the start of the Ethernet buffer; negative
    /// offsets are bookkeeping fields).
    pub fn locate(&self, addr: usize) -> Option<(usize, isize)> {
        if addr < self.base {
            return None;
        }
        let slot = (addr - self.base) / self.stride;
        if slot >= self.n {
            return None;
        }
        let off = (addr - self.base - slot * self.stride) as isize - self.buf_off as isize;
        Some((slot, off))
    }

    pub fn slot_of_frame(&self, frame_addr: usize) -> Option<usize> {
        if frame_addr == 0 {
            return None;
        }
        self.locate(frame_addr).map(|(s, _)| s)
    }
}

#[derive(Clone, Copy, Debug, PartialEq, Eq)]
pub struct TraceRec {
    pub step: u64,
    pub party: u8,
    pub kind: u8, // 0 yield, 1 atomic, 2 transition ok, 3 transition failed, 4 read, 5 write, 6 switch, 7 timer, 8 note
    pub site: u16,
    pub slot: i16,
    pub a: i64,
    pub b: i64,
}

pub struct Ctx {
    pub tape: Tape,
    pub parties: Vec<Party>,
    pub cur: usize,
    pub strategy: Strategy,
    pub steps: u64,
    pub sched_points: u64,
    pub switches: u64,
    pub max_steps: u64,
    pub budget_exhausted: bool,
    /// Set by the first anomaly: the run stops at the next scheduling point.
    pub halt: bool,
    pub slots: SlotMap,
    pub hb: Option<Hb>,
    pub trans_mode: TransMode,
    pub trace: Vec<TraceRec>,
    pub trace_keep: usize,
    pub trace_hash: TraceHash,
    pub anomalies: Vec<Anomaly>,
    /// Per slot: how many times it went Sending -> Sent.
    pub sent_count: Vec<u64>,
    /// Per slot: current state as seen through transition events.
    pub slot_state: Vec<u8>,
    /// The slot the TX party is currently inside `send_blocking` for.
    pub tx_in_slot: Option<usize>,
    /// Chance (num/den) per scheduling point of letting the earliest deadline expire now.
    pub timer_fire: (u32, u32),
    pub timers_fired_by_choice: u64,
    pub abstract_states: HashSet<u64>,
    pub probes: BTreeMap<&'static str, u64>,
    pub inside_pdu_loop_switches: u64,
    /// Flag set whenever a slot goes Sending -> Sent (wakes the RX party: a response may now be
    /// deliverable).
    /// Deadlines later than this are treated as "never" (no idle jump, no chosen expiry).
    pub time_horizon: u64,
    pub on_sent_wake: Option<Arc<Flag>>,
    /// Deadlines may only expire while no slot is Sendable or Sending (C06's count clause).
    pub tx_priority: bool,
    /// Deadlines may only be fired by choice while no slot is between "being built" and "response
    /// being copied" (states 1..=5): every outstanding response has been received.
    pub timer_gate_all_received: bool,
    pending_cas: Vec<Option<Option<usize>>>,
    pct_next_low: i64,
}

thread_local! {
    static CTX: RefCell<Option<Ctx>> = const { RefCell::new(None) };
}

/// Access the run context. Panics if re-entered (never hold it across a yield).
pub fn with<R>(f: impl FnOnce(&mut Ctx) -> R) -> R {
    CTX.with(|c| {
        let mut b = c.borrow_mut();
        f(b.as_mut().expect("no simulation context installed"))
    })
}

pub fn try_with<R>(f: impl FnOnce(&mut Ctx) -> R) -> Option<R> {
    CTX.with(|c| match c.try_borrow_mut() {
        Ok(mut b) => b.as_mut().map(f),
        Err(_) => None,
    })
}

pub fn install(ctx: Ctx) {
    CTX.with(|c| *c.borrow_mut() = Some(ctx));
}

pub fn uninstall() -> Ctx {
    CTX.with(|c| c.borrow_mut().take().expect("no context"))
}

pub fn probe(name: &'static str) {
    let _ = try_with(|c| *c.probes.entry(name).or_insert(0) += 1);
}

impl Ctx {
    pub fn new(tape: Tape, slots: SlotMap) -> Self {
        Ctx {
            tape,
            parties: Vec::new(),
            cur: 0,
            strategy: Strategy::Random { stay: 70 },
            steps: 0,
            sched_points: 0,
            switches: 0,
            max_steps: 20_000,
            budget_exhausted: false,
            halt: false,
            slots,
            hb: None,
            trans_mode: TransMode::Off,
            trace: Vec::new(),
            trace_keep: 600,
            trace_hash: TraceHash::default(),
            anomalies: Vec::new(),
            sent_count: vec![0; slots.n],
            slot_state: vec![0; slots.n],
            tx_in_slot: None,
            timer_fire: (0, 1),
            timers_fired_by_choice: 0,
            abstract_states: HashSet::new(),
            probes: BTreeMap::new(),
            inside_pdu_loop_switches: 0,
            time_horizon: u64::MAX,
            on_sent_wake: None,
            tx_priority: false,
            timer_gate_all_received: false,
            pending_cas: Vec::new(),
            pct_next_low: -1,
        }
    }

    pub fn add_party(&mut self, name: impl Into<String>, kind: PartyKind) -> usize {
        let id = self.parties.len();
        self.parties.push(Party {
            name: name.into(),
            kind,
            status: Status::Runnable,
            wake: Flag::new(),
            last_site: 0,
            ctx_site: 0,
            prio: 0,
        });
        self.pending_cas.push(None);
        id
    }

    pub fn enable_hb(&mut self) {
        self.hb = Some(Hb::new(self.parties.len().max(1), self.slots.n));
    }

    pub fn anomaly(&mut self, clause: &'static str, detail: String, sites: Vec<u16>) {
        self.halt = true;
        if self.anomalies.len() < 16 {
            self.anomalies.push(Anomaly {
                clause,
                detail,
                step: self.steps,
                sites,
            });
        }
    }

    pub fn rec(&mut self, party: usize, kind: u8, site: u16, slot: Option<usize>, a: i64, b: i64) {
        let r = TraceRec {
            step: self.steps,
            party: party as u8,
            kind,
            site,
            slot: slot.map_or(-1, |s| s as i16),
            a,
            b,
        };
        self.trace_hash.add(
            (r.party as u64) | ((r.kind as u64) << 8) | ((r.site as u64) << 16) | (((r.slot as u16) as u64) << 32),
        );
        self.trace_hash.add(r.a as u64);
        self.trace_hash.add(r.b as u64);
        if self.trace.len() >= self.trace_keep * 2 {
            self.trace.drain(0..self.trace_keep);
        }
        self.trace.push(r);
    }

    /// Free-form harness note in the trace (also part of the trace hash).
    pub fn note(&mut self, code: u16, a: i64, b: i64) {
        let p = self.cur;
        self.rec(p, 8, code, None, a, b);
    }

    fn is_runnable(&self, i: usize) -> bool {
        match self.parties[i].status {
            Status::Runnable => true,
            Status::Parked => self.parties[i].wake.is_set(),
            Status::Done => false,
        }
    }

    fn runnable_list(&self) -> Vec<usize> {
        (0..self.parties.len()).filter(|&i| self.is_runnable(i)).collect()
    }

    fn make_running(&mut self, i: usize) {
        if self.parties[i].status == Status::Parked {
            self.parties[i].wake.take();
            self.parties[i].status = Status::Runnable;
        }
    }

    fn maybe_fire_timer(&mut self) {
        if self.timer_fire.0 == 0 {
            return;
        }
        match clock::next_deadline() {
            None => return,
            Some(d) if d > self.time_horizon => return,
            _ => {}
        }
        if self.tx_priority && self.slot_state.iter().any(|s| *s == 2 || *s == 3) {
            return;
        }
        if self.timer_gate_all_received && self.slot_state.iter().any(|s| (1..=5).contains(s)) {
            return;
        }
        if self.tape.flag(self.timer_fire.0, self.timer_fire.1, "timer_fire") {
            let before = clock::now();
            clock::jump_to_next_deadline();
            self.timers_fired_by_choice += 1;
            let p = self.cur;
            self.rec(p, 7, 0, None, before as i64, clock::now() as i64);
        }
    }

    /// Decide who runs after a scheduling point reached by `me`. Returns `Some(next)` when a
    /// different party should run.
    fn schedule_point(&mut self, me: usize, site: u16) -> Option<usize> {
        self.steps += 1;
        self.sched_points += 1;
        if self.steps > self.max_steps {
            self.budget_exhausted = true;
        }
        self.parties[me].last_site = site;
        self.maybe_fire_timer();
        let next = self.pick(Some(me), site);
        match next {
            Some(n) if n != me => {
                self.switches += 1;
                if site != 0 {
                    self.inside_pdu_loop_switches += 1;
                }
                self.rec(me, 6, site, None, n as i64, 0);
                Some(n)
            }
            _ => None,
        }
    }

    /// Choose the next party among the runnable ones. `me` (if runnable) is the boring choice.
    fn pick(&mut self, me: Option<usize>, site: u16) -> Option<usize> {
        let mut runnable = self.runnable_list();
        if runnable.is_empty() {
            return None;
        }
        // Put `me` first so that tape value 0 means "no switch".
        if let Some(m) = me {
            if let Some(pos) = runnable.iter().position(|&r| r == m) {
                runnable.remove(pos);
                runnable.insert(0, m);
            }
        }
        if runnable.len() == 1 {
            return Some(runnable[0]);
        }
        let me_runnable = me.map_or(false, |m| runnable[0] == m);
        let choice = match &self.strategy {
            Strategy::Random { stay } => {
                let stay = if me_runnable { *stay } else { 0 };
                // `stay: 100` means "never pre-empt inside the PDU loop" (history-level runs); a
                // scheduling point the harness asks for itself (site 0) is between operations and
                // stays a real choice.
                let stay = if stay == 100 && site == 0 { 50 } else { stay };
                if stay > 0 {
                    self.tape.choose_biased(runnable.len(), stay, 100, "sched")
                } else {
                    self.tape.choose(runnable.len(), "sched")
                }
            }
            Strategy::SiteBiased { sites, stay_elsewhere } => {
                let hot = sites.contains(&site);
                let stay = if !me_runnable {
                    0
                } else if hot {
                    15
                } else {
                    *stay_elsewhere
                };
                if stay > 0 {
                    self.tape.choose_biased(runnable.len(), stay, 100, "sched")
                } else {
                    self.tape.choose(runnable.len(), "sched")
                }
            }
            Strategy::Pct { change_points } => {
                if let Some(m) = me {
                    if change_points.contains(&self.sched_points) {
                        self.parties[m].prio = self.pct_next_low;
                        self.pct_next_low -= 1;
                    }
                }
                let best = runnable
                    .iter()
                    .copied()
                    .max_by_key(|&i| (self.parties[i].prio, std::cmp::Reverse(i)))
                    .unwrap();
                return Some(best);
            }
        };
        Some(runnable[choice])
    }

    fn slot_from_frame(&self, frame: usize) -> Option<usize> {
        self.slots.slot_of_frame(frame)
    }

    /// Apply an event to trace and monitors. Called when the operation the event announces is about
    /// to execute (i.e. after any pre-emption at this point).
    fn apply(&mut self, me: usize, e: Event) {
        match e {
            Event::Yield { site, frame } => {
                let slot = self.slot_from_frame(frame);
                self.parties[me].ctx_site = site;
                match site {
                    verif::site::SEND_BEFORE_CLOSURE => self.tx_in_slot = slot,
                    verif::site::SEND_AFTER_CLOSURE => {}
                    _ => {}
                }
                self.rec(me, 0, site, slot, 0, 0);
            }
            Event::Atomic {
                site,
                frame,
                loc,
                order,
                kind,
            } => {
                let slot = self.slot_from_frame(frame);
                self.rec(me, 1, site, slot, loc as i64, ((order as i64) << 8) | kind as i64);
                if site == verif::site::SWAP_STATE {
                    // Synchronisation depends on success; decided by the Transition event.
                    self.pending_cas[me] = Some(slot);
                } else if let Some(hb) = self.hb.as_mut() {
                    if me < hb.party_vc.len() {
                        hb.atomic(me, slot, loc, order, kind);
                    }
                }
            }
            Event::Transition {
                site,
                frame,
                from,
                to,
                cas,
                ok,
            } => {
                let slot = self.slot_from_frame(frame);
                self.rec(me, if ok { 2 } else { 3 }, site, slot, from as i64, to as i64);
                if cas {
                    // A failed compare-exchange is announced *before* the operation (peek), a
                    // successful one after it.
                    if ok {
                        self.pending_cas[me] = None;
                        if let Some(hb) = self.hb.as_mut() {
                            if me < hb.party_vc.len() {
                                hb.atomic(me, slot, Loc::Status, MemOrder::AcqRel, Kind::Rmw);
                            }
                        }
                    } else {
                        self.pending_cas[me] = None;
                        if let Some(hb) = self.hb.as_mut() {
                            if me < hb.party_vc.len() {
                                // The declared failure ordering is Relaxed. The properties speak about
                                // instants ("inside the buffer at once"), not about the language memory
                                // model, so observing a state counts as having seen what led to it.
                                hb.atomic(me, slot, Loc::Status, MemOrder::Acquire, Kind::Load);
                            }
                        }
                    }
                }
                if ok {
                    if let Some(s) = slot {
                        self.slot_state[s] = to;
                        if from == 3 && to == 4 {
                            self.sent_count[s] += 1;
                            if let Some(f) = &self.on_sent_wake {
                                f.set();
                            }
                            if self.tx_in_slot == Some(s) {
                                self.tx_in_slot = None;
                            }
                        }
                        if from == 3 && to == 2 && self.tx_in_slot == Some(s) {
                            self.tx_in_slot = None;
                        }
                        let caller = self.parties[me].ctx_site;
                        let legal = match self.trans_mode {
                            TransMode::Off => true,
                            TransMode::Documented => hb::documented_transition(from, to) && hb::actor_ok(from, to, caller),
                            TransMode::WithDeadlines => {
                                (hb::documented_transition(from, to) && hb::actor_ok(from, to, caller))
                                    || hb::deadline_transition(from, to, caller)
                            }
                        };
                        if !legal {
                            let caller = self.parties[me].ctx_site;
                            self.anomaly(
                                "lifecycle-order",
                                format!(
                                    "slot {} went {} -> {} ({}) by {} at {}",
                                    s,
                                    hb::state_name(from),
                                    hb::state_name(to),
                                    if cas { "compare-exchange" } else { "plain store" },
                                    self.parties[me].name,
                                    verif::site::name(caller)
                                ),
                                vec![from as u16, to as u16, caller],
                            );
                        }
                        // Abstract state coverage: slot-state vector.
                        let mut h = TraceHash::default();
                        for st in &self.slot_state {
                            h.add(*st as u64);
                        }
                        self.abstract_states.insert(h.0);
                    }
                }
            }
            Event::BufAccess {
                site,
                frame: _,
                lo,
                hi,
                write,
            } => {
                if let Some((slot, off)) = self.slots.locate(lo) {
                    self.rec(me, if write { 5 } else { 4 }, site, Some(slot), off as i64, (hi - lo) as i64);
                    let (lo_off, hi_off) = (off, off + (hi - lo) as isize);
                    if let Some(hb) = self.hb.as_mut() {
                        if me < hb.party_vc.len() {
                            let before = hb.races.len();
                            // Shift by a constant so bookkeeping fields (negative offsets) stay distinct.
                            let sh = 4096isize;
                            hb.access(me, slot, (lo_off + sh) as usize, (hi_off + sh) as usize, write, site);
                            if hb.races.len() > before {
                                let r = hb.races[before].clone();
                                let detail = format!(
                                    "slot {} bytes {}..{}: {} by {} at {} is unordered with earlier {} by {} at {}",
                                    r.slot,
                                    r.lo as isize - sh,
                                    r.hi as isize - sh,
                                    if r.second_write { "write" } else { "read" },
                                    self.parties[r.second_party].name,
                                    verif::site::name(r.second_site),
                                    if r.first_write { "write" } else { "read" },
                                    self.parties[r.first_party].name,
                                    verif::site::name(r.first_site),
                                );
                                self.anomaly("buffer-race", detail, vec![r.first_site, r.second_site]);
                            }
                        }
                    }
                } else {
                    self.rec(me, if write { 5 } else { 4 }, site, None, -1, (hi - lo) as i64);
                }
            }
        }
    }
}

/// The process-wide hook installed into ethercrab.
pub fn hook(e: Event) {
    let in_fibre = fiber::current();
    let me = match in_fibre {
        Some(id) => id,
        None => {
            // Not inside a fibre: engine S or a sequential check. Record only.
            let _ = try_with(|c| {
                let me = c.cur.min(c.parties.len().saturating_sub(1));
                if !c.parties.is_empty() {
                    c.steps += 1;
                    c.apply(me, e);
                }
            });
            return;
        }
    };
    let sched_point = !matches!(e, Event::Transition { .. }) && !std::thread::panicking();
    if sched_point {
        let site = match e {
            Event::Yield { site, .. } | Event::Atomic { site, .. } | Event::BufAccess { site, .. } => site,
            Event::Transition { site, .. } => site,
        };
        let next = try_with(|c| {
            let n = c.schedule_point(me, site);
            if let Some(n) = n {
                c.cur = n;
            }
            n.is_some() || c.budget_exhausted || c.halt
        })
        .unwrap_or(false);
        if next {
            fiber::suspend();
        }
    }
    let halted = try_with(|c| {
        c.apply(me, e);
        c.halt
    })
    .unwrap_or(false);
    if halted && !std::thread::panicking() {
        // The first anomaly ends the run: park this fibre for good.
        fiber::suspend();
    }
}

/// Scheduling point requested by harness code running inside a fibre (site 0).
pub fn yield_now() {
    let Some(me) = fiber::current() else { return };
    let next = try_with(|c| {
        let n = c.schedule_point(me, 0);
        if let Some(n) = n {
            c.cur = n;
        }
        n.is_some() || c.budget_exhausted || c.halt
    })
    .unwrap_or(false);
    if next {
        fiber::suspend();
    }
}

/// Park the current fibre until its wake flag is set.
pub fn park() {
    let Some(me) = fiber::current() else { return };
    let already = with(|c| {
        if c.parties[me].wake.take() {
            true
        } else {
            c.parties[me].status = Status::Parked;
            false
        }
    });
    if already {
        // Woken before parking: behave like a yield.
        yield_now();
        return;
    }
    fiber::suspend();
}

#[derive(Debug, PartialEq, Eq, Clone, Copy)]
pub enum RunEnd {
    /// Every party finished.
    AllDone,
    /// Nobody can run, no timer is armed.
    Quiescent,
    /// Step budget exhausted.
    Budget,
    /// A party panicked.
    Panicked,
    /// Stopped at the first anomaly.
    Anomaly,
}

/// Drive the fibres until the run ends. `idle` is called when nobody is runnable; it may make
/// progress possible (return true) — e.g. by releasing wire items — otherwise time jumps to the next
/// deadline, and if there is none the run is quiescent.
pub fn run(fibres: &mut [Fibre], mut idle: impl FnMut() -> bool) -> (RunEnd, Option<String>) {
    loop {
        let next = with(|c| {
            if c.halt {
                return Err(RunEnd::Anomaly);
            }
            if c.budget_exhausted {
                return Err(RunEnd::Budget);
            }
            if c.parties.iter().all(|p| p.status == Status::Done) {
                return Err(RunEnd::AllDone);
            }
            // `cur` was chosen by the last scheduling point if it is runnable; otherwise pick.
            let cur = c.cur;
            let n = if c.is_runnable(cur) && !fibres[cur].done {
                Some(cur)
            } else {
                c.steps += 1;
                c.sched_points += 1;
                if c.steps > c.max_steps {
                    c.budget_exhausted = true;
                }
                c.pick(None, 0)
            };
            match n {
                Some(n) => {
                    c.make_running(n);
                    c.cur = n;
                    Ok(Some(n))
                }
                None => Ok(None),
            }
        });
        match next {
            Err(end) => return (end, None),
            Ok(Some(n)) => match fibres[n].resume() {
                Ok(done) => {
                    if done {
                        with(|c| c.parties[n].status = Status::Done);
                    }
                }
                Err(p) => {
                    let msg = if let Some(s) = p.downcast_ref::<&str>() {
                        s.to_string()
                    } else if let Some(s) = p.downcast_ref::<String>() {
                        s.clone()
                    } else {
                        "panic (non-string payload)".to_string()
                    };
                    with(|c| c.parties[n].status = Status::Done);
                    return (RunEnd::Panicked, Some(format!("{}: {}", with(|c| c.parties[n].name.clone()), msg)));
                }
            },
            Ok(None) => {
                if idle() {
                    continue;
                }
                let horizon = with(|c| c.time_horizon);
                if clock::next_deadline().map_or(false, |d| d <= horizon) {
                    let before = clock::now();
                    clock::jump_to_next_deadline();
                    with(|c| {
                        c.steps += 1;
                        let p = c.cur;
                        c.rec(p, 7, 1, None, before as i64, clock::now() as i64);
                        if c.steps > c.max_steps {
                            c.budget_exhausted = true;
                        }
                    });
                    continue;
                }
                return (RunEnd::Quiescent, None);
            }
        }
    }
}
