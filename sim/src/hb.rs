//! Happens-before race detector over slot buffers and the slot-transition monitor.
//!
//! Vector clocks per fibre and per atomic location. The *declared* memory orderings at each call
//! site decide what an atomic operation transfers (Relaxed transfers nothing). A buffer access is a
//! race when another party's earlier overlapping access (at least one of the two a write) is not
//! ordered before it.

use ethercrab::verif::{Kind, Loc, MemOrder};

pub const MAX_PARTIES: usize = 8;
pub type Vc = [u32; MAX_PARTIES];

fn join(a: &mut Vc, b: &Vc) {
    for i in 0..MAX_PARTIES {
        if b[i] > a[i] {
            a[i] = b[i];
        }
    }
}

#[derive(Clone, Debug)]
struct Access {
    party: usize,
    clock: u32,
    lo: usize,
    hi: usize,
    write: bool,
    site: u16,
}

#[derive(Clone, Debug)]
pub struct Race {
    pub slot: usize,
    pub first_party: usize,
    pub first_site: u16,
    pub first_write: bool,
    pub second_party: usize,
    pub second_site: u16,
    pub second_write: bool,
    pub lo: usize,
    pub hi: usize,
}

pub struct Hb {
    pub party_vc: Vec<Vc>,
    /// Per slot: Status, FirstPdu, SlotWaker location clocks.
    slot_loc: Vec<[Vc; 3]>,
    /// FrameIdx, PduIdx, TxWaker, ExitFlag.
    global_loc: [Vc; 4],
    accesses: Vec<Vec<Access>>,
    pub races: Vec<Race>,
    pub checked: u64,
}

fn slot_loc_index(loc: Loc) -> Option<usize> {
    match loc {
        Loc::Status => Some(0),
        Loc::FirstPdu => Some(1),
        Loc::SlotWaker => Some(2),
        _ => None,
    }
}

fn global_loc_index(loc: Loc) -> usize {
    match loc {
        Loc::FrameIdx => 0,
        Loc::PduIdx => 1,
        Loc::TxWaker => 2,
        _ => 3,
    }
}

impl Hb {
    pub fn new(parties: usize, slots: usize) -> Self {
        assert!(parties <= MAX_PARTIES);
        let mut party_vc = vec![[0u32; MAX_PARTIES]; parties];
        for (i, vc) in party_vc.iter_mut().enumerate() {
            vc[i] = 1;
        }
        Hb {
            party_vc,
            slot_loc: vec![[[0; MAX_PARTIES]; 3]; slots],
            global_loc: [[0; MAX_PARTIES]; 4],
            accesses: vec![Vec::new(); slots],
            races: Vec::new(),
            checked: 0,
        }
    }

    fn loc_mut(&mut self, slot: Option<usize>, loc: Loc) -> &mut Vc {
        match (slot, slot_loc_index(loc)) {
            (Some(s), Some(i)) => &mut self.slot_loc[s][i],
            _ => &mut self.global_loc[global_loc_index(loc)],
        }
    }

    /// Apply the synchronisation effect of an atomic operation performed by `party`.
    pub fn atomic(&mut self, party: usize, slot: Option<usize>, loc: Loc, order: MemOrder, kind: Kind) {
        let acquire = matches!(order, MemOrder::Acquire | MemOrder::AcqRel);
        let release = matches!(order, MemOrder::Release | MemOrder::AcqRel);
        let pvc = self.party_vc[party];
        match kind {
            Kind::Load => {
                if acquire {
                    let l = *self.loc_mut(slot, loc);
                    join(&mut self.party_vc[party], &l);
                }
            }
            Kind::Store => {
                // A store heads a new release sequence (or none, if relaxed).
                let l = self.loc_mut(slot, loc);
                if release {
                    *l = pvc;
                } else {
                    *l = [0; MAX_PARTIES];
                }
            }
            Kind::Rmw => {
                if acquire {
                    let l = *self.loc_mut(slot, loc);
                    join(&mut self.party_vc[party], &l);
                }
                if release {
                    let pvc = self.party_vc[party];
                    let l = self.loc_mut(slot, loc);
                    join(l, &pvc);
                }
                // A relaxed RMW continues the release sequence: location clock unchanged.
            }
        }
        self.party_vc[party][party] += 1;
    }

    /// Explicit synchronisation edge created by the harness itself (e.g. the wire carrying a frame
    /// from the TX party to the RX party is *not* such an edge; fibre spawn is).
    pub fn edge(&mut self, from: usize, to: usize) {
        let f = self.party_vc[from];
        join(&mut self.party_vc[to], &f);
        self.party_vc[from][from] += 1;
    }

    /// Record a buffer access and report a race with any unordered conflicting earlier access.
    pub fn access(&mut self, party: usize, slot: usize, lo: usize, hi: usize, write: bool, site: u16) {
        if hi <= lo {
            return;
        }
        self.checked += 1;
        let vc = self.party_vc[party];
        let list = &mut self.accesses[slot];
        for a in list.iter() {
            if a.party == party {
                continue;
            }
            if !(a.write || write) {
                continue;
            }
            if a.hi <= lo || hi <= a.lo {
                continue;
            }
            if a.clock > vc[a.party] {
                if self.races.len() < 8 {
                    self.races.push(Race {
                        slot,
                        first_party: a.party,
                        first_site: a.site,
                        first_write: a.write,
                        second_party: party,
                        second_site: site,
                        second_write: write,
                        lo: lo.max(a.lo),
                        hi: hi.min(a.hi),
                    });
                }
            }
        }
        // Drop older accesses of the same party and kind that this one covers.
        list.retain(|a| !(a.party == party && a.write == write && a.lo >= lo && a.hi <= hi));
        // A write by this party also supersedes its own covered reads for conflict purposes only if
        // they are ordered anyway (same party), so nothing more to prune.
        list.push(Access {
            party,
            clock: vc[party],
            lo,
            hi,
            write,
            site,
        });
        if list.len() > 64 {
            // Keep the list bounded: forget the oldest entries (may only lose detections).
            let excess = list.len() - 64;
            list.drain(0..excess);
        }
        self.party_vc[party][party] += 1;
    }
}

pub const STATE_NAMES: [&str; 9] = [
    "None",
    "Created",
    "Sendable",
    "Sending",
    "Sent",
    "RxBusy",
    "RxDone",
    "RxProcessing",
    "Abandoned",
];

pub fn state_name(s: u8) -> &'static str {
    STATE_NAMES.get(s as usize).copied().unwrap_or("?")
}

/// Is `from -> to` part of the documented lifecycle (without deadlines/abandonment)?
pub fn documented_transition(from: u8, to: u8) -> bool {
    matches!(
        (from, to),
        (0, 1) // None -> Created
            | (1, 2) // Created -> Sendable
            | (2, 3) // Sendable -> Sending
            | (3, 4) // Sending -> Sent
            | (4, 5) // Sent -> RxBusy
            | (5, 6) // RxBusy -> RxDone
            | (6, 7) // RxDone -> RxProcessing
            | (7, 0) // RxProcessing -> None
            | (1, 0) // Created -> None (dropped unsent)
            | (3, 2) // Sending -> Sendable (send failure)
    )
}

/// The TX-side edges are only legal when performed by the TX side.
pub fn actor_ok(from: u8, to: u8, caller_site: u16) -> bool {
    use ethercrab::verif::site;
    match (from, to) {
        (3, 4) | (3, 2) => caller_site == site::SEND_AFTER_CLOSURE,
        _ => true,
    }
}

/// Additional edges that deadlines, retries, abandonment and reset legitimately add, by actor.
pub fn deadline_transition(from: u8, to: u8, caller_site: u16) -> bool {
    use ethercrab::verif::site;
    match caller_site {
        // Giving up: only a frame nobody else is inside may be freed.
        // A frame the TX or RX side is inside is marked abandoned instead (that side frees it).
        site::RECV_POLL_AFTER_TIMER | site::RECV_DROP => matches!((from, to), (2, 0) | (4, 0) | (6, 0) | (3, 8) | (5, 8)),
        site::SEND_AFTER_CLOSURE | site::RX_AFTER_COPY => matches!((from, to), (8, 0)),
        // Retry: only a frame that was sent and got no response is queued again.
        site::RECV_POLL_RETRY => matches!((from, to), (4, 2) | (2, 2)),
        // The receive side found the claimed frame now belongs to another request: hand it back.
        site::RX_AFTER_LOOKUP => matches!((from, to), (5, 4) | (8, 0)),
        // ... or that the received data does not fit into the claimed frame: hand it back as well.
        site::RX_AFTER_CLAIM => matches!((from, to), (5, 4) | (8, 0)),
        site::RESET => to == 0,
        _ => false,
    }
}
