//! Property-level driver: known-finding witnesses, batches, minimisation, replay files, evidence.

use crate::runner::{self, BatchCfg, BatchResult, CaseFn, CaseOutcome, KnownFinding};
use serde_json::{json, Value};
use std::collections::{BTreeMap, HashSet};
use std::time::Instant;

pub const VERIF_DIR: &str = "/verif";

pub struct PropertyRun {
    pub property: String,
    pub tier: String,
    pub seed: u64,
    pub workers: usize,
    pub level: String,
    start: Instant,
    known: Vec<KnownFinding>,
    pub sections: Vec<(String, BatchResult, String)>, // (check name, result, rule)
    pub new_violations: u64,
    pub known_hit: Vec<String>,
    pub real_components: Vec<&'static str>,
    pub stub_components: Vec<&'static str>,
    pub assumptions: Vec<String>,
    pub extra: BTreeMap<String, Value>,
    pub harness_error: Option<String>,
}

fn replay_dir() -> String {
    std::env::var("VERIF_REPLAY_DIR").unwrap_or_else(|_| format!("{}/replays", VERIF_DIR))
}

impl PropertyRun {
    pub fn new(property: &str, tier: &str, seed: u64, workers: usize) -> Self {
        println!("seed={} property={} tier={} workers={}", seed, property, tier, workers);
        let known = runner::load_known_findings(&format!("{}/known_findings.jsonl", VERIF_DIR))
            .into_iter()
            .filter(|k| k.property == property)
            .collect();
        PropertyRun {
            property: property.to_string(),
            tier: tier.to_string(),
            seed,
            workers,
            level: "exploration".into(),
            start: Instant::now(),
            known,
            sections: Vec::new(),
            new_violations: 0,
            known_hit: Vec::new(),
            real_components: vec![],
            stub_components: vec![],
            assumptions: vec![],
            extra: BTreeMap::new(),
            harness_error: None,
        }
    }

    fn open_signatures(&self) -> HashSet<String> {
        self.known.iter().filter(|k| k.status == "open").map(|k| k.signature.clone()).collect()
    }

    /// Re-execute the committed witness of every open finding of this check. Prints the
    /// KNOWN-FINDING line only when the witness still fails with the same signature.
    pub fn replay_witnesses(&mut self, check: &str, case: &CaseFn) {
        for k in self.known.clone() {
            if k.status != "open" {
                continue;
            }
            let Some(path) = &k.replay else { continue };
            let full = if path.starts_with('/') { path.clone() } else { format!("{}/{}", VERIF_DIR, path) };
            let Ok(text) = std::fs::read_to_string(&full) else {
                self.harness_error = Some(format!("witness replay file {} of known finding {} is missing", full, k.signature));
                continue;
            };
            let Ok(v) = serde_json::from_str::<Value>(&text) else {
                self.harness_error = Some(format!("witness replay file {} is not valid JSON", full));
                continue;
            };
            if v["check"].as_str() != Some(check) {
                continue;
            }
            let tape: Vec<u32> = v["tape"].as_array().map(|a| a.iter().map(|x| x.as_u64().unwrap_or(0) as u32).collect()).unwrap_or_default();
            let rs = v["run_seed"].as_u64().unwrap_or(0);
            let nonce = v["nonce"].as_u64().unwrap_or(0);
            let file_gen = v["gen"].as_u64().unwrap_or(1) as u32;
            let out = crate::tape::with_gen(file_gen, || case(rs, nonce, Some(tape)));
            if out.violations.first().map(|x| x.signature == k.signature).unwrap_or(false) {
                println!("KNOWN-FINDING: property={} {} {}", self.property, k.signature, k.what);
                self.known_hit.push(k.signature.clone());
            } else {
                println!(
                    "note: witness of known finding {} no longer fails (signature now {:?}); mark it fixed",
                    k.signature,
                    out.violations.first().map(|x| x.signature.clone())
                );
            }
        }
    }

    /// Run one batch of a check and handle whatever it finds.
    pub fn batch(&mut self, check: &str, runs: u64, max_wall_s: u64, rule: &str, case: &CaseFn) {
        let open = self.open_signatures();
        let runs = std::env::var("VERIF_RUNS").ok().and_then(|s| s.parse().ok()).unwrap_or(runs);
        let cfg = BatchCfg {
            property: &self.property,
            check,
            tier: &self.tier,
            seed: self.seed,
            runs,
            workers: self.workers,
            // The determinism self-test compares whole batches, so no batch may be cut short by the wall clock.
            max_wall_s: if std::env::var("VERIF_SELFTEST").is_ok() { 0 } else { max_wall_s },
        };
        let res = runner::run_batch(&cfg, case, &open);
        println!(
            "{} {}: {} runs in {:.1}s ({} non-trivial, {} distinct non-trivial traces, {} abstract states, {} inconclusive), faults {:?}",
            self.property,
            check,
            res.evaluations,
            res.wall_s,
            res.nontrivial,
            res.distinct_nontrivial,
            res.abstract_states,
            res.inconclusive,
            res.faults
        );
        if std::env::var("VERIF_FINGERPRINT").is_ok() {
            println!("fingerprint {} {} runs={} {:016x}", self.property, check, res.evaluations, res.fingerprint);
        }
        for (sig, n) in &res.tainted {
            println!("note: {} runs of {} first hit known finding {}", n, check, sig);
            if !self.known_hit.contains(sig) {
                // The witness did not reproduce (or is absent) but the search hit it: still known.
                if let Some(k) = self.known.iter().find(|k| &k.signature == sig) {
                    println!("KNOWN-FINDING: property={} {} {}", self.property, k.signature, k.what);
                }
                self.known_hit.push(sig.clone());
            }
        }
        for (run, rs, out) in &res.violations {
            self.report_violation(check, *run, *rs, out, case);
        }
        self.sections.push((check.to_string(), res, rule.to_string()));
    }

    fn report_violation(&mut self, check: &str, run: u64, rs: u64, out: &CaseOutcome, case: &CaseFn) {
        let first = out.violations[0].clone();
        let nonce = crate::rng::mix(&[rs, 0x6e6f6e6365]);
        // Minimise under "same clause and same signature".
        let pred = |t: &[u32]| -> bool {
            let o = case(rs, nonce, Some(t.to_vec()));
            o.violations.first().map_or(false, |v| v.signature == first.signature)
        };
        let orig_len = out.tape.len();
        // Sanity: the recorded tape must reproduce the violation (determinism).
        let reproduces = pred(&out.tape);
        let min_tape = if reproduces { runner::minimise(out.tape.clone(), &pred, 1500) } else { out.tape.clone() };
        let fin = case(rs, nonce, Some(min_tape.clone()));
        if !reproduces {
            self.harness_error = Some(format!(
                "nondeterminism: run {} of {} reported {} but its recorded tape does not reproduce it",
                run, check, first.signature
            ));
        }
        let v = fin.violations.first().cloned().unwrap_or(first.clone());
        let path = format!(
            "{}/{}-{}-{}.json",
            replay_dir(),
            self.property,
            runner::sanitize(&v.signature),
            rs
        );
        let _ = std::fs::create_dir_all(replay_dir());
        let doc = json!({
            "property": self.property,
            "check": check,
            "tier": self.tier,
            "seed": self.seed,
            "run": run,
            "run_seed": rs,
            "nonce": nonce,
            "tape": min_tape,
            "gen": crate::tape::CURRENT_GEN,
            "orig_tape_len": orig_len,
            "minimised": reproduces,
            "build_profile": if cfg!(debug_assertions) { "checked" } else { "release" },
            "violation": {"clause": v.clause, "signature": v.signature, "detail": v.detail},
            "trace_hash": format!("{:016x}", fin.trace_hash),
            "case": fin.describe,
            "trace": fin.trace,
        });
        let _ = std::fs::write(&path, serde_json::to_string_pretty(&doc).unwrap());
        println!("violation: {} [{}] {}", v.clause, v.signature, v.detail);
        println!("VIOLATION property={} replay={}", self.property, path);
        self.new_violations += 1;
    }

    /// Write the evidence file and return the process exit code.
    pub fn finish(mut self) -> i32 {
        let wall = self.start.elapsed().as_secs_f64();
        let mut evaluations = 0u64;
        let mut distinct_nt = 0u64;
        let mut sim_us = 0u64;
        let mut faults: BTreeMap<String, u64> = BTreeMap::new();
        let mut probes: BTreeMap<String, u64> = BTreeMap::new();
        let mut samples: Vec<Value> = Vec::new();
        let mut rules: Vec<String> = Vec::new();
        let mut per_check = Vec::new();
        let mut states = 0u64;
        let mut traces = 0u64;
        let mut inconclusive = 0u64;
        let mut tainted: BTreeMap<String, u64> = BTreeMap::new();
        for (name, r, rule) in &self.sections {
            evaluations += r.evaluations;
            distinct_nt += r.distinct_nontrivial;
            sim_us += r.sim_time_us;
            states += r.abstract_states;
            traces += r.distinct_traces;
            inconclusive += r.inconclusive;
            for (k, v) in &r.faults {
                *faults.entry(k.clone()).or_insert(0) += v;
            }
            for (k, v) in &r.probes {
                *probes.entry(k.clone()).or_insert(0) += v;
            }
            for (k, v) in &r.tainted {
                *tainted.entry(k.clone()).or_insert(0) += v;
            }
            for s in r.samples.iter().take(3) {
                let mut s = s.clone();
                if let Some(o) = s.as_object_mut() {
                    o.insert("check".into(), json!(name));
                }
                samples.push(s);
            }
            rules.push(format!("[{}] {}", name, rule));
            per_check.push(json!({
                "check": name,
                "build_profile": if cfg!(debug_assertions) { "checked (overflow-checks, debug-assertions)" } else { "release" },
                "evaluations": r.evaluations,
                "nontrivial": r.nontrivial,
                "distinct_nontrivial": r.distinct_nontrivial,
                "distinct_traces": r.distinct_traces,
                "abstract_states": r.abstract_states,
                "inconclusive_runs": r.inconclusive,
                "wall_s": r.wall_s,
                "steps": r.steps,
            }));
        }
        let hours = (wall / 3600.0).max(1e-9);
        let mut coverage = json!({
            "evaluations": evaluations,
            "distinct_nontrivial": distinct_nt,
            "rule": rules.join(" | "),
            "samples": samples,
            "runs_per_hour": (evaluations as f64 / hours) as u64,
            "seeds_per_hour": (evaluations as f64 / hours) as u64,
            "simulated_seconds": sim_us as f64 / 1e6,
            "faults_fired": faults,
            "probes": probes,
            "distinct_traces": traces,
            "distinct_abstract_states": states,
            "inconclusive_runs": inconclusive,
            "per_check": per_check,
            "real_components": self.real_components,
            "stubbed_components": self.stub_components,
            "known_findings_hit": self.known_hit,
            "runs_first_hitting_known_finding": tainted,
        });
        for (k, v) in std::mem::take(&mut self.extra) {
            coverage[k] = v;
        }
        let doc = json!({
            "property_id": self.property,
            "tier": self.tier,
            "seed": self.seed,
            "level": self.level,
            "coverage": coverage,
            "assumptions": self.assumptions,
            "wall_s": wall,
            "violations": self.new_violations,
        });
        let dir = std::env::var("VERIF_EVIDENCE_DIR").unwrap_or_else(|_| format!("{}/evidence", VERIF_DIR));
        let _ = std::fs::create_dir_all(&dir);
        let path = format!("{}/{}.json", dir, self.property);
        // A check that runs under two build profiles: the second run folds the first run's
        // evidence into its own.
        let mut doc = doc;
        if std::env::var("VERIF_MERGE").is_ok() {
            if let Ok(prev) = std::fs::read_to_string(&path).map_err(|_| ()).and_then(|t| serde_json::from_str::<Value>(&t).map_err(|_| ())) {
                doc = merge_evidence(prev, doc);
            }
        }
        if let Err(e) = std::fs::write(&path, serde_json::to_string_pretty(&doc).unwrap()) {
            eprintln!("cannot write evidence {}: {}", path, e);
            return 2;
        }
        if let Some(e) = &self.harness_error {
            eprintln!("HARNESS-ERROR: {}", e);
            return 2;
        }
        if self.new_violations > 0 {
            1
        } else {
            println!("{}: OK ({} evaluations, {:.1}s)", self.property, evaluations, wall);
            0
        }
    }
}

fn merge_evidence(a: Value, mut b: Value) -> Value {
    let add = |x: &Value, y: &Value| json!(x.as_u64().unwrap_or(0) + y.as_u64().unwrap_or(0));
    for k in ["evaluations", "distinct_nontrivial", "distinct_traces", "distinct_abstract_states", "inconclusive_runs"] {
        b["coverage"][k] = add(&a["coverage"][k], &b["coverage"][k]);
    }
    b["coverage"]["simulated_seconds"] = json!(a["coverage"]["simulated_seconds"].as_f64().unwrap_or(0.0) + b["coverage"]["simulated_seconds"].as_f64().unwrap_or(0.0));
    for k in ["faults_fired", "probes"] {
        if let (Some(am), Some(bm)) = (a["coverage"][k].as_object(), b["coverage"][k].as_object_mut()) {
            for (kk, v) in am {
                let cur = bm.get(kk).cloned().unwrap_or(json!(0));
                bm.insert(kk.clone(), add(v, &cur));
            }
        }
    }
    for k in ["samples", "per_check"] {
        let mut v = a["coverage"][k].as_array().cloned().unwrap_or_default();
        v.extend(b["coverage"][k].as_array().cloned().unwrap_or_default());
        b["coverage"][k] = json!(v);
    }
    b["coverage"]["build_profiles"] = json!([a["coverage"]["arithmetic_profile"], b["coverage"]["arithmetic_profile"]]);
    b["wall_s"] = json!(a["wall_s"].as_f64().unwrap_or(0.0) + b["wall_s"].as_f64().unwrap_or(0.0));
    b["violations"] = add(&a["violations"], &b["violations"]);
    let hours = (b["wall_s"].as_f64().unwrap_or(1.0) / 3600.0).max(1e-9);
    b["coverage"]["runs_per_hour"] = json!((b["coverage"]["evaluations"].as_u64().unwrap_or(0) as f64 / hours) as u64);
    b["coverage"]["seeds_per_hour"] = b["coverage"]["runs_per_hour"].clone();
    b
}

/// Re-run a replay file; returns the exit code (1 = violation reproduced, 0 = not reproduced).
pub fn replay_file(path: &str, lookup: &dyn Fn(&str, &str, bool) -> Option<Box<CaseFn>>) -> i32 {
    let Ok(text) = std::fs::read_to_string(path) else {
        eprintln!("cannot read {}", path);
        return 2;
    };
    let Ok(v) = serde_json::from_str::<Value>(&text) else {
        eprintln!("{} is not JSON", path);
        return 2;
    };
    let property = v["property"].as_str().unwrap_or("");
    let check = v["check"].as_str().unwrap_or("");
    let Some(case) = lookup(property, check, v["tier"].as_str() == Some("thorough")) else {
        eprintln!("unknown check {}/{}", property, check);
        return 2;
    };
    let tape: Vec<u32> = v["tape"].as_array().map(|a| a.iter().map(|x| x.as_u64().unwrap_or(0) as u32).collect()).unwrap_or_default();
    let rs = v["run_seed"].as_u64().unwrap_or(0);
    let nonce = v["nonce"].as_u64().unwrap_or(0);
    println!("seed={} replay of {} {}/{} run_seed={} tape_len={}", v["seed"], path, property, check, rs, tape.len());
    let file_gen = v["gen"].as_u64().unwrap_or(1) as u32;
    // A crash replay file has no tape (the process died before it could be recorded): the run's
    // decisions are drawn again from its seed, which is the same thing.
    let tape_opt = if v["tape"].is_null() { None } else { Some(tape) };
    let out = crate::tape::with_gen(file_gen, || case(rs, nonce, tape_opt));
    for line in &out.trace {
        println!("  {}", line);
    }
    println!("case: {}", out.describe);
    let want_sig = v["violation"]["signature"].as_str().unwrap_or("");
    let want_hash = v["trace_hash"].as_str().unwrap_or("");
    match out.violations.first() {
        Some(viol) => {
            println!("violation: {} [{}] {}", viol.clause, viol.signature, viol.detail);
            let same_hash = format!("{:016x}", out.trace_hash) == want_hash;
            println!(
                "reproduced: signature {} trace_hash {}",
                if viol.signature == want_sig { "identical" } else { "DIFFERENT" },
                if same_hash { "identical" } else { "DIFFERENT" }
            );
            println!("VIOLATION property={} replay={}", property, path);
            1
        }
        None => {
            println!("no violation on replay (trace hash {:016x}, recorded {})", out.trace_hash, want_hash);
            0
        }
    }
}
