//! C12 (EEPROM reads are exact), C13 (no EEPROM content can hang or crash), C14 (alias write).

use crate::c_init::{sim_error_violation, viol};
use crate::checks::PropertyRun;
use crate::esc::sii::{self, GenOpts};
use crate::esc::{Device, Segment};
use crate::netgen::{self, GenCfg};
use crate::rng::TraceHash;
use crate::runner::CaseOutcome;
use crate::tape::Tape;
use crate::world::{now_ns, World, WorldCfg};
use ethercrab::error::Error;
use ethercrab::SubDeviceGroup;
use serde_json::json;

fn tape_of(rs: u64, replay: Option<Vec<u32>>) -> Tape {
    match replay {
        Some(v) => Tape::replay(v),
        None => Tape::search(rs),
    }
}

pub fn hang_context(w: &World) -> String {
    let mut parts = vec![format!("{} frames sent, simulated time {} us", w.sim.stats.frames_tx, crate::clock::now())];
    for (i, d) in w.sim.seg.devices.iter().enumerate() {
        let mut top: Vec<(&u32, &u32)> = d.stats.sii_addr_hist.iter().collect();
        top.sort_by_key(|(_, n)| std::cmp::Reverse(**n));
        let top: Vec<String> = top.iter().take(4).map(|(a, n)| format!("{:#06x}x{}", a, n)).collect();
        parts.push(format!("device {}: AL state {} err {}, {} SII reads, most read words {:?}, {} eeprom bytes", i, d.al_state, d.al_error, d.stats.sii_reads, top, d.eeprom.len()));
    }
    parts.join("; ")
}

// ---------------------------------------------------------------------------------------------
// C12
// ---------------------------------------------------------------------------------------------

pub fn c12_case(rs: u64, _nonce: u64, replay: Option<Vec<u32>>) -> CaseOutcome {
    let mut t = tape_of(rs, replay);
    let mut out = CaseOutcome::default();
    let rich = t.flag(30, 100, "rich_image");
    let cfg = GenCfg {
        sii_opts: GenOpts {
            max_strings: if rich { 50 } else { 10 },
            max_string_len: if rich { 255 } else { 60 },
            max_pdos: 6,
            max_entries: 8,
            allow_unknown_categories: true,
            shuffle_categories: true,
        },
        max_pdos: if rich { 8 } else { 3 },
        max_entries: if rich { 12 } else { 4 },
        ..GenCfg::default()
    };
    let n = 1 + t.choose(2, "n_devices");
    let (mut specs, mut seg) = netgen::gen_network(&mut t, &cfg, n);
    // Sometimes a large EEPROM (up to 4 Mbit) whose size word is beyond what 16 bit arithmetic holds.
    let big = t.flag(15, 100, "big_eeprom");
    if big {
        let kbit = t.pick(&[512usize, 1024, 256, 4096, 2048], "big_kbit");
        let s = &mut specs[0];
        s.image.header.size_word = (kbit - 1) as u16;
        s.eeprom = s.image.encode(true);
        s.size_kbit = kbit;
        // Fill the blank part (everything after the end marker) with a recognisable pattern so that
        // range reads there are attributable.
        let mut small = s.image.clone();
        small.header.size_word = 0;
        let content_len = small.encode(true).len().max(0x100);
        for (i, b) in s.eeprom.iter_mut().enumerate().skip(content_len + 2) {
            *b = (i as u32).wrapping_mul(2654435761).to_le_bytes()[1];
        }
        seg.devices[0].eeprom = s.eeprom.clone();
    }
    let lag = t.flag(30, 100, "sii_lag");
    if lag {
        for d in seg.devices.iter_mut() {
            d.faults.sii_busy_polls = t.choose(4, "busy_polls") as u32;
        }
    }
    let wcfg = WorldCfg {
        static_sync_iterations: 0,
        frame_len: t.pick(&[1100usize, 128, 64], "frame_len"),
        ..WorldCfg::default()
    };
    let mut w = World::new(&wcfg, seg, t);
    let md = w.md();
    let group = match w.sim.block_on(md.init_single_group::<4, 256>(now_ns)) {
        Err(e) => {
            let mut v = sim_error_violation("init", &e);
            v.detail = format!("{} [{}]", v.detail, hang_context(&w));
            out.violations.push(v);
            out.tape = w.sim.tape.consumed_values();
            return out;
        }
        Ok(Err(e)) => {
            let info: Vec<String> = specs.iter().map(|s| format!("order_idx {:?} string lens {:?} cats {:?}", s.image.general().map(|g| (g.order_idx, g.name_idx)), s.image.strings().map(|v| v.iter().map(|x| x.len()).collect::<Vec<_>>()), s.image.categories.iter().map(|c| c.type_code()).collect::<Vec<_>>())).collect();
            out.violations.push(viol("init-failed", format!("init on well-formed EEPROMs failed with {:?}; {:?}", e, info)));
            out.tape = w.sim.tape.consumed_values();
            return out;
        }
        Ok(Ok(g)) => g,
    };
    let mut th = TraceHash::default();
    let mut ranges = 0u64;
    let mut odd = 0u64;
    let mut typed = 0u64;
    for (di, spec) in specs.iter().enumerate() {
        let sd = match group.subdevice(md, di) {
            Ok(s) => s,
            Err(e) => {
                out.violations.push(viol("init-failed", format!("group has no SubDevice {}: {:?}", di, e)));
                break;
            }
        };
        let img = &spec.eeprom;
        // eeprom_size
        match w.sim.block_on(sd.eeprom_size(md)) {
            Ok(Ok(sz)) => {
                let want = (spec.image.header.size_word as usize + 1) * 128;
                if sz != want {
                    out.violations.push(viol("wrong-eeprom-size", format!("device {}: eeprom_size() = {} bytes, size word {} encodes {}", di, sz, spec.image.header.size_word, want)));
                }
            }
            Ok(Err(e)) => out.violations.push(viol("eeprom-size-error", format!("device {}: eeprom_size() failed with {:?}", di, e))),
            Err(e) => out.violations.push(sim_error_violation("eeprom_size", &e)),
        }
        // description()
        match w.sim.block_on(sd.description()) {
            Ok(Ok(d)) => {
                let want = spec.image.general().and_then(|g| spec.image.visible_string(g.name_idx));
                let got = d.map(|s| s.as_str().to_string());
                if got != want && !(want.as_ref().map_or(false, |w| w.len() > 128)) {
                    out.violations.push(viol("wrong-description", format!("device {}: description() = {:?}, EEPROM encodes {:?}", di, got, want)));
                }
            }
            Ok(Err(Error::StringTooLong { .. })) => {}
            Ok(Err(e)) => out.violations.push(viol("description-error", format!("device {}: description() failed with {:?}", di, e))),
            Err(e) => out.violations.push(sim_error_violation("description", &e)),
        }
        if !out.violations.is_empty() {
            break;
        }
        // Range reads.
        let n_ranges = 20 + w.sim.tape.choose(30, "n_ranges");
        // The API addresses 16 bit words: only the first 64 Ki words are reachable.
        let words = (img.len() / 2).min(0x10000);
        for _ in 0..n_ranges {
            let start = match w.sim.tape.choose(5, "start_class") {
                0 => w.sim.tape.choose(0x80, "start_low"),
                1 => words.saturating_sub(1 + w.sim.tape.choose(40, "start_end")),
                2 => w.sim.tape.choose(words.max(1), "start_any"),
                3 => (0x7ff0 + w.sim.tape.choose(0x20, "start_wrap")).min(words.saturating_sub(1)),
                _ => w.sim.tape.choose(0x400.min(words.max(1)), "start_mid"),
            };
            let max_len = ((words - start.min(words)) * 2).min(70);
            let len = w.sim.tape.choose(max_len + 1, "len");
            let mut buf = vec![0xA5u8; len + 4];
            let res = {
                let b = &mut buf[..len];
                w.sim.block_on(sd.eeprom_read_raw(md, start as u16, b))
            };
            ranges += 1;
            if len % 2 == 1 {
                odd += 1;
            }
            th.add(start as u64);
            th.add(len as u64);
            match res {
                Err(e) => {
                    out.violations.push(sim_error_violation("eeprom_read_raw", &e));
                    break;
                }
                Ok(Err(e)) => {
                    out.violations.push(viol("range-read-error", format!("device {}: eeprom_read_raw(start word {:#06x}, {} bytes) of a {} byte EEPROM failed with {:?}", di, start, len, img.len(), e)));
                    break;
                }
                Ok(Ok(nread)) => {
                    let want = &img[start * 2..start * 2 + len];
                    if nread > len || buf[..nread] != want[..nread] {
                        out.violations.push(viol(
                            "range-read-wrong-bytes",
                            format!("device {} ({} byte SII reads): eeprom_read_raw(start word {:#06x}, {} bytes) returned {} bytes {:02x?}; stored there: {:02x?}", di, if spec.read8 { 8 } else { 4 }, start, len, nread, &buf[..nread.min(len)], want),
                        ));
                        break;
                    }
                    if buf[len..] != [0xA5; 4] {
                        out.violations.push(viol("range-read-beyond-buffer", format!("device {}: a {} byte read wrote past the requested range", di, len)));
                        break;
                    }
                    if nread != len {
                        out.violations.push(viol(
                            if len % 2 == 1 && nread == len - 1 { "range-read-short-odd-length" } else { "range-read-short" },
                            format!("device {}: eeprom_read_raw(start word {:#06x}, {} bytes) returned only {} bytes although {} bytes are stored from there", di, start, len, nread, img.len() - start * 2),
                        ));
                        break;
                    }
                }
            }
        }
        if !out.violations.is_empty() {
            break;
        }
        // Typed reads over a menu of T.
        for _ in 0..6 {
            let start = w.sim.tape.choose(words.saturating_sub(8).max(1), "typed_start");
            let at = start * 2;
            typed += 1;
            macro_rules! typed_read {
                ($t:ty, $n:expr, $conv:expr) => {{
                    match w.sim.block_on(sd.eeprom_read::<$t>(md, start as u16)) {
                        Err(e) => out.violations.push(sim_error_violation("eeprom_read", &e)),
                        Ok(Err(e)) => out.violations.push(viol(
                            if $n % 2 == 1 { "typed-read-error-odd-length" } else { "typed-read-error" },
                            format!("device {}: eeprom_read::<{}>(word {:#06x}) failed with {:?}", di, stringify!($t), start, e),
                        )),
                        Ok(Ok(v)) => {
                            let want: $t = $conv(&img[at..at + $n]);
                            if v != want {
                                out.violations.push(viol("typed-read-wrong", format!("device {}: eeprom_read::<{}>(word {:#06x}) = {:?}, stored {:?}", di, stringify!($t), start, v, want)));
                            }
                        }
                    }
                }};
            }
            match w.sim.tape.choose(6, "typed_kind") {
                0 => typed_read!(u16, 2, |b: &[u8]| u16::from_le_bytes([b[0], b[1]])),
                1 => typed_read!(u32, 4, |b: &[u8]| u32::from_le_bytes([b[0], b[1], b[2], b[3]])),
                2 => typed_read!(u64, 8, |b: &[u8]| u64::from_le_bytes(b.try_into().unwrap())),
                3 => typed_read!([u8; 6], 6, |b: &[u8]| -> [u8; 6] { b.try_into().unwrap() }),
                4 => typed_read!(u8, 1, |b: &[u8]| b[0]),
                _ => typed_read!([u8; 3], 3, |b: &[u8]| -> [u8; 3] { b.try_into().unwrap() }),
            }
            if !out.violations.is_empty() {
                break;
            }
        }
        if !out.violations.is_empty() {
            break;
        }
    }
    if !w.sim.seg.malformed.is_empty() && out.violations.is_empty() {
        out.violations.push(viol("malformed-frame", w.sim.seg.malformed[0].clone()));
    }
    out.trace_hash = th.0;
    out.tape = w.sim.tape.consumed_values();
    out.steps = w.sim.stats.steps;
    out.sim_time_us = crate::clock::now();
    out.nontrivial = ranges > 0;
    out.probes.insert("ranges_read".into(), ranges);
    out.probes.insert("odd_length_ranges".into(), odd);
    out.probes.insert("typed_reads".into(), typed);
    out.probes.insert("big_eeprom(>=256kbit)".into(), big as u64);
    out.probes.insert("rich_image".into(), rich as u64);
    if lag {
        out.faults.insert("dev_lag(sii busy)".into(), 1);
    }
    out.describe = json!({"devices": specs.iter().map(|s| json!({"eeprom_bytes": s.eeprom.len(), "read8": s.read8, "strings": s.image.strings().map_or(0, |v| v.len()), "categories": s.image.categories.iter().map(|c| c.type_code()).collect::<Vec<_>>()})).collect::<Vec<_>>(), "ranges": ranges});
    drop(group);
    out
}

// ---------------------------------------------------------------------------------------------
// C13
// ---------------------------------------------------------------------------------------------

fn hostile_image(t: &mut Tape) -> (Vec<u8>, &'static str) {
    let class = t.choose(10, "img_class");
    let size = t.pick(&[2048usize, 128, 256, 1024, 4096, 16384, 512], "img_size");
    if class == 9 {
        // A consistent image whose PDOs are as large as the format allows: several PDOs of up to 255
        // entries of up to 255 bits each, so that bit-length sums exceed 16 bits.
        let cfg = GenCfg { mailbox_pct: 0, pd_pct: 100, ..GenCfg::default() };
        let mut spec = netgen::gen_device(t, &cfg, 0);
        let n_pdos = 1 + t.choose(4, "big_pdos");
        for c in spec.image.categories.iter_mut() {
            if let sii::Category::TxPdo(p) | sii::Category::RxPdo(p) = c {
                let sm = p.first().map_or(0, |x| x.sm);
                let base = p.first().map_or(0x1a00, |x| x.index);
                *p = (0..n_pdos)
                    .map(|k| sii::PdoDesc {
                        index: base + k as u16,
                        sm,
                        dc_sync: 0,
                        name_idx: 0,
                        flags: 0,
                        entries: (0..t.pick(&[255usize, 200, 129, 255], "big_entries"))
                            .map(|e| sii::PdoEntryDesc { index: 0x6000, sub: e as u8, name_idx: 0, data_type: 0, bit_len: t.pick(&[255u8, 128, 255, 64], "big_bits"), flags: 0 })
                            .collect(),
                    })
                    .collect();
            }
        }
        spec.image.header.size_word = 255;
        return (spec.image.encode(true), "pdo-sum-extremes");
    }
    match class {
        0 => (vec![0xff; size], "blank-ff"),
        1 => (vec![0x00; size], "blank-00"),
        2 => ((0..size).map(|_| t.choose(256, "rnd") as u8).collect(), "random"),
        _ => {
            // Structured, then mutated.
            let cfg = GenCfg {
                sii_opts: GenOpts { max_strings: 20, max_string_len: 100, ..GenOpts::default() },
                max_pdos: 6,
                max_entries: 8,
                mailbox_pct: 70,
                ..GenCfg::default()
            };
            let spec = netgen::gen_device(t, &cfg, 0);
            let mut img = spec.eeprom.clone();
            let label = match class {
                3 => {
                    // length fields of categories set to hostile values
                    let mut w = 0x40usize;
                    let mut cats = Vec::new();
                    while w * 2 + 4 <= img.len() {
                        let ty = u16::from_le_bytes([img[w * 2], img[w * 2 + 1]]);
                        if ty == 0xffff {
                            break;
                        }
                        let len = u16::from_le_bytes([img[w * 2 + 2], img[w * 2 + 3]]) as usize;
                        cats.push(w);
                        w += 2 + len;
                    }
                    if !cats.is_empty() {
                        let c = cats[t.choose(cats.len(), "which_cat")];
                        let v = t.pick(&[0xffffu16, 0, 0xfffe, 0x8000, 0x7fff, 1], "hostile_len");
                        img[c * 2 + 2..c * 2 + 4].copy_from_slice(&v.to_le_bytes());
                    }
                    "category-length"
                }
                4 => {
                    // remove the end marker and let the chain run into the blank area / wrap
                    for i in (0x80..img.len()).step_by(2) {
                        if img[i] == 0xff && img[i + 1] == 0xff {
                            img[i] = t.pick(&[0x00u8, 0x28, 0x0a], "end_lo");
                            img[i + 1] = 0;
                            break;
                        }
                    }
                    "no-end-marker"
                }
                5 => {
                    img[0x7c..0x7e].copy_from_slice(&t.pick(&[511u16, 0xffff, 1023, 4095, 0x8000], "size_word").to_le_bytes());
                    "size-word"
                }
                6 => {
                    let n = 1 + t.choose(12, "flips");
                    for _ in 0..n {
                        let i = t.choose(img.len().min(0x400), "flip_at");
                        img[i] ^= 1 << t.choose(8, "flip_bit");
                    }
                    "bit-flips"
                }
                7 => {
                    // string indices past the table, 255 entry PDOs with 255 bit entries
                    for i in 0x80..img.len().saturating_sub(8) {
                        if img[i] == 30 && img[i + 1] == 0 && i % 2 == 0 {
                            img[i + 4 + 2] = 0xff;
                            img[i + 4 + 3] = t.pick(&[0xffu8, 200, 1], "name_idx");
                            break;
                        }
                    }
                    for i in (0x80..img.len().saturating_sub(16)).step_by(2) {
                        if (img[i] == 50 || img[i] == 51) && img[i + 1] == 0 {
                            img[i + 4 + 2] = 0xff; // nEntries
                            for k in 0..8 {
                                let e = i + 4 + 8 + k * 8 + 5;
                                if e < img.len() {
                                    img[e] = 0xff;
                                }
                            }
                        }
                    }
                    "index-and-count-extremes"
                }
                _ => {
                    let cut = 0x80 + t.choose(img.len() - 0x80, "cut");
                    img.truncate(cut & !1);
                    "truncated"
                }
            };
            (img, label)
        }
    }
}

pub fn c13_case(rs: u64, _nonce: u64, replay: Option<Vec<u32>>) -> CaseOutcome {
    let mut t = tape_of(rs, replay);
    let mut out = CaseOutcome::default();
    let (img, class) = hostile_image(&mut t);
    let read8 = t.flag(50, 100, "read8");
    let flags = t.pick(&[0x0000u16, 0x010d, 0x0004], "support");
    let dev = Device::new(img.clone(), read8, flags, 8, 8);
    let seg = Segment::chain(vec![dev]);
    let wcfg = WorldCfg {
        static_sync_iterations: 0,
        state_transition_us: 3_000,
        mailbox_echo_us: 1_000,
        mailbox_response_us: 1_000,
        ..WorldCfg::default()
    };
    let mut w = World::new(&wcfg, seg, t);
    // Budget: far above the legitimate maximum of walking 64 Ki words.
    w.sim.max_steps = 3_000_000;
    let md = w.md();
    let mut th = TraceHash::default();
    th.add_bytes(&img[..img.len().min(0x200)]);
    th.add(img.len() as u64);
    let mut ops = 0u64;
    let loop_check = |w: &World, out: &mut CaseOutcome, op: &str| {
        if let Some((addr, n)) = w.sim.seg.devices[0].stats.sii_addr_hist.iter().max_by_key(|(_, n)| **n) {
            if *n > 70_000 {
                out.violations.push(viol("eeprom-loop", format!("{} read SII word {:#06x} {} times", op, addr, n)));
            }
        }
    };
    let init = w.sim.block_on(md.init_single_group::<2, 64>(now_ns));
    ops += 1;
    out.describe = json!({"class": class, "image_bytes": img.len(), "read8": read8, "head": format!("{:02x?}", &img[..img.len().min(64)])});
    let group: Option<SubDeviceGroup<2, 64>> = match init {
        Err(e) => {
            let mut v = sim_error_violation(&format!("init with a {} EEPROM image", class), &e);
            v.detail = format!("{} [{}]", v.detail, hang_context(&w));
            out.violations.push(v);
            None
        }
        Ok(Err(_)) => None,
        Ok(Ok(g)) => Some(g),
    };
    loop_check(&w, &mut out, "init");
    if let (Some(group), true) = (group, out.violations.is_empty()) {
        // Every EEPROM-derived public query.
        if let Ok(sd) = group.subdevice(md, 0) {
            match w.sim.block_on(sd.description()) {
                Err(e) => out.violations.push(sim_error_violation(&format!("description() on a {} image", class), &e)),
                Ok(_) => {}
            }
            ops += 1;
            match w.sim.block_on(sd.eeprom_size(md)) {
                Err(e) => out.violations.push(sim_error_violation(&format!("eeprom_size() on a {} image", class), &e)),
                Ok(_) => {}
            }
            ops += 1;
            let mut buf = [0u8; 32];
            let start = w.sim.tape.pick(&[0u16, 0x3e, 0x7fff, 0x8000, 0xffff, 0xfff0], "rd_start");
            match w.sim.block_on(sd.eeprom_read_raw(md, start, &mut buf)) {
                Err(e) => out.violations.push(sim_error_violation(&format!("eeprom_read_raw({:#06x}, 32) on a {} image", start, class), &e)),
                Ok(_) => {}
            }
            ops += 1;
        }
        loop_check(&w, &mut out, "queries");
        if out.violations.is_empty() {
            // The configuration steps built on the parsed EEPROM.
            match w.sim.block_on(group.into_op(md)) {
                Err(e) => out.violations.push(sim_error_violation(&format!("into_op() with a {} EEPROM image", class), &e)),
                Ok(_) => {}
            }
            ops += 1;
            loop_check(&w, &mut out, "into_op");
        }
    }
    out.trace_hash = th.0;
    out.tape = w.sim.tape.consumed_values();
    out.steps = w.sim.stats.steps;
    out.sim_time_us = crate::clock::now();
    out.nontrivial = true;
    out.faults.insert(format!("sii_garbage/{}", class), 1);
    out.probes.insert("operations".into(), ops);
    out.probes.insert("sii_reads".into(), w.sim.seg.devices[0].stats.sii_reads);
    out
}

// ---------------------------------------------------------------------------------------------
// C14
// ---------------------------------------------------------------------------------------------

pub fn c14_case(rs: u64, _nonce: u64, replay: Option<Vec<u32>>) -> CaseOutcome {
    let mut t = tape_of(rs, replay);
    let mut out = CaseOutcome::default();
    let cfg = GenCfg::default();
    let (mut specs, mut seg) = netgen::gen_network(&mut t, &cfg, 1);
    // Random header words (the alias write must preserve them and compute the CRC over them).
    {
        let s = &mut specs[0];
        s.image.header.pdi_control = t.bits32("h0") as u16;
        s.image.header.pdi_config = t.bits32("h1") as u16;
        s.image.header.sync_impulse = t.bits32("h2") as u16;
        s.image.header.pdi_config2 = t.bits32("h3") as u16;
        s.image.header.reserved5_6 = [t.bits32("h5") as u16, t.bits32("h6") as u16];
        s.eeprom = s.image.encode(true);
        seg.devices[0].eeprom = s.eeprom.clone();
    }
    let mode = t.choose(3, "mode"); // 0 alias, 1 generic write, 2 alias with a busy-forever device
    let cmd_errors = t.pick(&[0u32, 1, 3, 19, 20, 21, 25], "cmd_errors");
    let busy_polls = t.choose(4, "busy_polls") as u32;
    seg.devices[0].faults.sii_busy_polls = busy_polls;
    let wcfg = WorldCfg {
        static_sync_iterations: 0,
        eeprom_us: 500,
        ..WorldCfg::default()
    };
    let mut w = World::new(&wcfg, seg, t);
    let md = w.md();
    let mut group = match w.sim.block_on(md.init_single_group::<2, 64>(now_ns)) {
        Ok(Ok(g)) => g,
        Ok(Err(e)) => {
            out.violations.push(viol("init-failed", format!("{:?}", e)));
            out.tape = w.sim.tape.consumed_values();
            return out;
        }
        Err(e) => {
            out.violations.push(sim_error_violation("init", &e));
            out.tape = w.sim.tape.consumed_values();
            return out;
        }
    };
    let before = w.sim.seg.devices[0].eeprom.clone();
    let mut th = TraceHash::default();
    th.add(mode as u64);
    th.add(cmd_errors as u64);
    w.sim.seg.devices[0].stats.sii_write_cmds = 0;
    if mode == 0 || mode == 2 {
        let alias = match w.sim.tape.choose(4, "alias_class") {
            0 => w.sim.tape.pick(&[0u16, 1, 0xffff, 0x8000, 0x00ff, 0xff00, 0x1234], "alias_edge"),
            _ => w.sim.tape.choose(0x10000, "alias") as u16,
        };
        th.add(alias as u64);
        if mode == 2 {
            w.sim.seg.devices[0].faults.sii_busy_forever = true;
        } else {
            w.sim.seg.devices[0].arm_sii_cmd_errors(cmd_errors);
        }
        let res = {
            let mut it = group.iter_mut(md);
            let mut sd = it.next().expect("one device");
            let r = w.sim.block_on(sd.set_alias_address(alias));
            let reported = sd.alias_address();
            r.map(|r| (r, reported))
        };
        let after = w.sim.seg.devices[0].eeprom.clone();
        let diff: Vec<usize> = (0..before.len() / 2).filter(|i| before[i * 2..i * 2 + 2] != after[i * 2..i * 2 + 2]).collect();
        out.describe = json!({"mode": if mode == 0 { "set-alias" } else { "set-alias-busy-forever" }, "alias": alias, "cmd_errors": cmd_errors, "busy_polls": busy_polls, "changed_words": diff});
        match res {
            Err(e) => out.violations.push(sim_error_violation("set_alias_address", &e)),
            Ok((r, reported)) => {
                if mode == 2 {
                    match r {
                        Err(Error::Timeout(_)) => {}
                        other => out.violations.push(viol("busy-device-not-timeout", format!("set_alias_address on a device whose SII stays busy returned {:?}", other))),
                    }
                    if !diff.is_empty() {
                        out.violations.push(viol("alias-write-touched-other-words", format!("busy device: words {:?} changed", diff)));
                    }
                } else {
                    // Expected image: alias word and checksum word only.
                    let mut want = before.clone();
                    want[8..10].copy_from_slice(&alias.to_le_bytes());
                    let crc = sii::crc8(&want[0..14]) as u16;
                    want[14..16].copy_from_slice(&crc.to_le_bytes());
                    let writes_needed = (before[8..10] != want[8..10]) as u32 + (before[14..16] != want[14..16]) as u32;
                    let _ = writes_needed;
                    if cmd_errors <= 20 {
                        if let Err(e) = r {
                            out.violations.push(viol("alias-write-error", format!("set_alias_address({:#06x}) with {} command errors failed with {:?}", alias, cmd_errors, e)));
                        } else {
                            if after != want {
                                let wrong: Vec<String> = (0..want.len() / 2).filter(|i| want[i * 2..i * 2 + 2] != after[i * 2..i * 2 + 2]).map(|i| format!("word {:#04x}: is {:02x?} should be {:02x?}", i, &after[i * 2..i * 2 + 2], &want[i * 2..i * 2 + 2])).collect();
                                out.violations.push(viol("alias-write-wrong-image", format!("after set_alias_address({:#06x}): {}", alias, wrong.join("; "))));
                            }
                            if reported != alias {
                                out.violations.push(viol("alias-not-reported", format!("alias_address() = {:#06x} after setting {:#06x}", reported, alias)));
                            }
                        }
                    } else {
                        // More command errors than the retry bound: the first word can not be stored.
                        let untouched: Vec<&usize> = diff.iter().filter(|i| **i != 4 && **i != 7).collect();
                        if !untouched.is_empty() {
                            out.violations.push(viol("alias-write-touched-other-words", format!("words {:?} changed", untouched)));
                        }
                    }
                    let cmds = w.sim.seg.devices[0].stats.sii_write_cmds;
                    if cmds > 2 * 21 {
                        out.violations.push(viol("too-many-write-commands", format!("{} write commands for two words (bound 21 each)", cmds)));
                    }
                }
            }
        }
    } else {
        // Generic write of 2..8 bytes (typed API) at any word address.
        let words = before.len() / 2;
        let addr = match w.sim.tape.choose(3, "addr_class") {
            0 => w.sim.tape.choose(0x40, "addr_low"),
            1 => words - 1 - w.sim.tape.choose(8, "addr_end"),
            _ => w.sim.tape.choose(words - 8, "addr_any"),
        };
        w.sim.seg.devices[0].arm_sii_cmd_errors(cmd_errors.min(20));
        let kind = w.sim.tape.choose(5, "wr_kind");
        let payload: Vec<u8> = (0..8).map(|i| w.sim.tape.choose(256, "wr_byte") as u8 ^ i).collect();
        th.add(addr as u64);
        th.add(kind as u64);
        let sd = group.subdevice(md, 0).expect("device");
        let (res, n) = match kind {
            0 => (w.sim.block_on(sd.eeprom_write_dangerously(md, addr as u16, u16::from_le_bytes([payload[0], payload[1]]))), 2),
            1 => (w.sim.block_on(sd.eeprom_write_dangerously(md, addr as u16, u32::from_le_bytes([payload[0], payload[1], payload[2], payload[3]]))), 4),
            2 => (w.sim.block_on(sd.eeprom_write_dangerously(md, addr as u16, payload[0])), 1),
            3 => (w.sim.block_on(sd.eeprom_write_dangerously(md, addr as u16, payload[0] as i8)), 1),
            _ => (w.sim.block_on(sd.eeprom_write_dangerously(md, addr as u16, u64::from_le_bytes(payload[..8].try_into().unwrap()))), 8),
        };
        let after = w.sim.seg.devices[0].eeprom.clone();
        let mut want = before.clone();
        let at = addr * 2;
        let room = before.len() - at;
        for i in 0..n.min(room) {
            want[at + i] = payload[i];
        }
        if n % 2 == 1 && at + n < want.len() {
            want[at + n] = 0; // odd trailing byte padded with zero
        }
        out.describe = json!({"mode": "generic-write", "word": addr, "bytes": n, "cmd_errors": cmd_errors.min(20)});
        match res {
            Err(e) => out.violations.push(sim_error_violation("eeprom_write_dangerously", &e)),
            Ok(Err(e)) => {
                if n <= room {
                    out.violations.push(viol(if n % 2 == 1 { "generic-write-error-odd-length" } else { "generic-write-error" }, format!("writing {} bytes at word {:#06x} failed with {:?}", n, addr, e)));
                }
            }
            Ok(Ok(())) => {
                if after != want {
                    let wrong: Vec<String> = (0..want.len() / 2).filter(|i| want[i * 2..i * 2 + 2] != after[i * 2..i * 2 + 2]).map(|i| format!("word {:#06x}: is {:02x?} should be {:02x?}", i, &after[i * 2..i * 2 + 2], &want[i * 2..i * 2 + 2])).collect();
                    out.violations.push(viol(if n % 2 == 1 { "generic-write-wrong-image-odd-length" } else { "generic-write-wrong-image" }, format!("writing {} bytes {:02x?} at word {:#06x}: {}", n, &payload[..n], addr, wrong.join("; "))));
                }
            }
        }
    }
    if cmd_errors > 0 {
        out.faults.insert("sii_cmd_error".into(), cmd_errors as u64);
    }
    if busy_polls > 0 {
        out.faults.insert("dev_lag(sii busy)".into(), 1);
    }
    if mode == 2 {
        out.faults.insert("sii_busy_forever".into(), 1);
    }
    out.trace_hash = th.0;
    out.tape = w.sim.tape.consumed_values();
    out.steps = w.sim.stats.steps;
    out.sim_time_us = crate::clock::now();
    out.nontrivial = true;
    drop(group);
    out
}

pub fn run(id: &str, tier: &str, seed: u64, workers: usize) -> i32 {
    let thorough = tier == "thorough";
    let mut pr = PropertyRun::new(id, tier, seed, workers);
    pr.real_components = vec!["ethercrab EEPROM stack (eeprom::{mod, device_provider, types}, subdevice::eeprom), SubDevice EEPROM API, init — real code", "PDU loop — real code"];
    pr.stub_components = vec!["SII interface of the simulated ESC (control/status/address/data registers, busy and error bits)", "EEPROM images: generator + independent parser (sim/src/esc/sii.rs)", "clock, executor, NIC"];
    match id {
        "C12" => {
            pr.assumptions = vec!["well-formed images keep reserved bits zero and enumerations within defined values; images up to 4 Mbit (word addresses are 16 bit, so ranges are sampled below 128 KiB)".into()];
            let (runs, wall) = if thorough { (2_000_000u64, 600u64) } else { (60_000u64, 40u64) };
            pr.replay_witnesses("eeprom-reads", &c12_case);
            pr.batch("eeprom-reads", runs, wall, "one run = 1..2 devices with generated images (strings incl. NUL/non-ASCII, categories in drawn order with unknown ones interleaved, 4/8 byte SII, optional busy polls, sometimes 256 Kbit..4 Mbit), then 20..50 (start word, length) range reads per device incl. odd lengths and ends of the image, typed reads over u8/u16/u32/u64/[u8;3]/[u8;6], eeprom_size and description; non-trivial = at least one range read; distinct = hash of the ranges", &c12_case);
        }
        "C13" => {
            let profile = if cfg!(debug_assertions) { "overflow-checks + debug-assertions" } else { "release arithmetic" };
            pr.assumptions = vec![format!("this binary was built with {}; ./check C13 runs the batch under both build profiles", profile)];
            pr.extra.insert("arithmetic_profile".into(), json!(profile));
            let (runs, wall) = if thorough { (3_000_000u64, 300u64) } else { (60_000u64, 20u64) };
            pr.replay_witnesses("hostile-eeprom", &c13_case);
            pr.batch("hostile-eeprom", runs, wall, "one run = one device carrying a hostile image (blank 0xFF/0x00, random, or structured-then-mutated: hostile category lengths, missing end marker, size word >= 511, bit flips, index/count extremes, truncation), then init, description, eeprom_size, a range read at an extreme address and into_op; oracle = no panic, no operation beyond the step budget, no SII word read more than 70000 times; distinct = hash of the image head", &c13_case);
        }
        _ => {
            pr.assumptions = vec!["the device stores a word when the write command completes; command errors are reported in the status register as on real ESCs".into()];
            let (runs, wall) = if thorough { (5_000_000u64, 400u64) } else { (150_000u64, 30u64) };
            pr.replay_witnesses("alias-and-writes", &c14_case);
            pr.batch("alias-and-writes", runs, wall, "one run = one device with random header words; either set_alias_address(alias) with 0..25 injected command errors and busy polls, or the same against a device whose SII stays busy, or a typed generic write of 1/2/3/4/8 bytes at a drawn word address; oracle = EEPROM image diff equals {alias word, CRC word} (CRC-8 0x07/0xFF over bytes 0..14 computed by the harness), alias reported, bound on write commands, busy => timeout; distinct = hash of (mode, alias/address, fault counts)", &c14_case);
        }
    }
    pr.finish()
}
