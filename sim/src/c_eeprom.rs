//! C12 (EEPROM reads are exact), C13 (no EEPROM content can hang or crash), C14 (alias write).

use crate::c_init::{sim_error_violation, viol};
use crate::checks::PropertyRun;
use crate::esc::sii::{self, GenOpts};
use crate::esc::{Device, Segment};
use crate::netgen::{self, GenCfg};
use crate::rng::TraceHash;
use crate::runner::CaseOutcome;
use crate::tape::Tape;
use crate::world::{now_ns, World, WorldCfg};
use ethercrab::error::Error;
use ethercrab::SubDeviceGroup;
use serde_json::json;

fn tape_of(rs: u64, replay: Option<Vec<u32>>) -> Tape {
    match replay {
        Some(v) => Tape::replay(v),
        None => Tape::search(rs),
    }
}

pub fn hang_context(w: &World) -> String {
    let mut parts = vec![format!("{} frames sent, simulated time {} us", w.sim.stats.frames_tx, crate::clock::now())];
    for (i, d) in w.sim.seg.devices.iter().enumerate() {
        let mut top: Vec<(&u32, &u32)> = d.stats.sii_addr_hist.iter().collect();
        top.sort_by_key(|(_, n)| std::cmp::Reverse(**n));
        let top: Vec<String> = top.iter().take(4).map(|(a, n)| format!("{:#06x}x{}", a, n)).collect();
        parts.push(format!("device {}: AL state {} err {}, {} SII reads, most read words {:?}, {} eeprom bytes", i, d.al_state, d.al_error, d.stats.sii_reads, top, d.eeprom.len()));
    }
    parts.join("; ")
}

// ---------------------------------------------------------------------------------------------
// C12
// ---------------------------------------------------------------------------------------------

pub fn c12_case(rs: u64, _nonce: u64, replay: Option<Vec<u32>>) -> CaseOutcome {
    let mut t = tape_of(rs, replay);
    let mut out = CaseOutcome::default();
    let rich = t.flag(30, 100, "rich_image");
    let cfg = GenCfg {
        sii_opts: GenOpts {
            max_strings: if rich { 50 } else { 10 },
            max_string_len: if rich { 255 } else { 60 },
            max_pdos: 6,
            max_entries: 8,
            allow_unknown_categories: true,
            shuffle_categories: true,
        },
        max_pdos: if rich { 8 } else { 3 },
        max_entries: if rich { 12 } else { 4 },
        // FMMU_EX categories (3 byte entries: odd counts end in a pad byte)
        fmmu_ex_pct: if crate::tape::gen() >= 2 { 40 } else { 0 },
        max_pd_sms_per_dir: if crate::tape::gen() >= 2 { 2 } else { GenCfg::default().max_pd_sms_per_dir },
        ..GenCfg::default()
    };
    let n = 1 + t.choose(2, "n_devices");
    let (mut specs, mut seg) = netgen::gen_network(&mut t, &cfg, n);
    // Sometimes a large EEPROM (up to 4 Mbit) whose size word is beyond what 16 bit arithmetic holds.
    let big = t.flag(15, 100, "big_eeprom");
    if big {
        let kbit = t.pick(&[512usize, 1024, 256, 4096, 2048], "big_kbit");
        let s = &mut specs[0];
        s.image.header.size_word = (kbit - 1) as u16;
        s.eeprom = s.image.encode(true);
        s.size_kbit = kbit;
        // Fill the blank part (everything after the end marker) with a recognisable pattern so that
        // range reads there are attributable.
        let mut small = s.image.clone();
        small.header.size_word = 0;
        let content_len = small.encode(true).len().max(0x100);
        for (i, b) in s.eeprom.iter_mut().enumerate().skip(content_len + 2) {
            *b = (i as u32).wrapping_mul(2654435761).to_le_bytes()[1];
        }
        seg.devices[0].eeprom = s.eeprom.clone();
    }
    let lag = t.flag(30, 100, "sii_lag");
    if lag {
        for d in seg.devices.iter_mut() {
            d.faults.sii_busy_polls = t.choose(4, "busy_polls") as u32;
        }
    }
    let wcfg = WorldCfg {
        static_sync_iterations: 0,
        frame_len: t.pick(&[1100usize, 128, 64], "frame_len"),
        ..WorldCfg::default()
    };
    let mut w = World::new(&wcfg, seg, t);
    let md = w.md();
    let group = match w.sim.block_on(md.init_single_group::<4, 256>(now_ns)) {
        Err(e) => {
            let mut v = sim_error_violation("init", &e);
            v.detail = format!("{} [{}]", v.detail, hang_context(&w));
            out.violations.push(v);
            out.tape = w.sim.tape.consumed_values();
            return out;
        }
        Ok(Err(e)) => {
            let info: Vec<String> = specs.iter().map(|s| format!("order_idx {:?} string lens {:?} cats {:?}", s.image.general().map(|g| (g.order_idx, g.name_idx)), s.image.strings().map(|v| v.iter().map(|x| x.len()).collect::<Vec<_>>()), s.image.categories.iter().map(|c| c.type_code()).collect::<Vec<_>>())).collect();
            out.violations.push(viol("init-failed", format!("init on well-formed EEPROMs failed with {:?}; {:?}", e, info)));
            out.tape = w.sim.tape.consumed_values();
            return out;
        }
        Ok(Ok(g)) => g,
    };
    let mut th = TraceHash::default();
    let mut ranges = 0u64;
    let mut odd = 0u64;
    let mut typed = 0u64;
    let mut seq_progs = 0u64;
    let mut parsed_views = 0u64;
    for (di, spec) in specs.iter().enumerate() {
        let sd = match group.subdevice(md, di) {
            Ok(s) => s,
            Err(e) => {
                out.violations.push(viol("init-failed", format!("group has no SubDevice {}: {:?}", di, e)));
                break;
            }
        };
        let img = &spec.eeprom;
        // eeprom_size
        match w.sim.block_on(sd.eeprom_size(md)) {
            Ok(Ok(sz)) => {
                let want = (spec.image.header.size_word as usize + 1) * 128;
                if sz != want {
                    out.violations.push(viol("wrong-eeprom-size", format!("device {}: eeprom_size() = {} bytes, size word {} encodes {}", di, sz, spec.image.header.size_word, want)));
                }
            }
            Ok(Err(e)) => out.violations.push(viol("eeprom-size-error", format!("device {}: eeprom_size() failed with {:?}", di, e))),
            Err(e) => out.violations.push(sim_error_violation("eeprom_size", &e)),
        }
        // description()
        // Raw (stored) length of the description string: only a string longer than the 128 byte
        // capacity of the returned value may be refused.
        let desc_raw_len = spec.image.general().and_then(|g| if g.name_idx == 0 { None } else { spec.image.strings().and_then(|v| v.get(g.name_idx as usize - 1)).map(|s| s.len()) });
        if let Some(l) = desc_raw_len {
            out.probes.insert(format!("description_len_{}", if l == 128 { "exactly_128" } else if l > 128 { "above_128" } else { "below_128" }), 1);
        }
        match w.sim.block_on(sd.description()) {
            Ok(Ok(d)) => {
                let want = spec.image.general().and_then(|g| spec.image.visible_string(g.name_idx));
                let got = d.map(|s| s.as_str().to_string());
                if got != want && !(desc_raw_len.map_or(false, |l| l > 128)) {
                    out.violations.push(viol("wrong-description", format!("device {}: description() = {:?}, EEPROM encodes {:?}", di, got, want)));
                }
            }
            Ok(Err(Error::StringTooLong { .. })) if desc_raw_len.map_or(false, |l| l > 128) => {}
            Ok(Err(e)) => out.violations.push(viol("description-error", format!("device {}: description() failed with {:?}", di, e))),
            Err(e) => out.violations.push(sim_error_violation("description", &e)),
        }
        if !out.violations.is_empty() {
            break;
        }
        // Range reads.
        let n_ranges = 20 + w.sim.tape.choose(30, "n_ranges");
        // The API addresses 16 bit words: only the first 64 Ki words are reachable.
        let words = (img.len() / 2).min(0x10000);
        for _ in 0..n_ranges {
            let start = match w.sim.tape.choose(5, "start_class") {
                0 => w.sim.tape.choose(0x80, "start_low"),
                1 => words.saturating_sub(1 + w.sim.tape.choose(40, "start_end")),
                2 => w.sim.tape.choose(words.max(1), "start_any"),
                3 => (0x7ff0 + w.sim.tape.choose(0x20, "start_wrap")).min(words.saturating_sub(1)),
                _ => w.sim.tape.choose(0x400.min(words.max(1)), "start_mid"),
            };
            let max_len = ((words - start.min(words)) * 2).min(70);
            let len = w.sim.tape.choose(max_len + 1, "len");
            let mut buf = vec![0xA5u8; len + 4];
            let res = {
                let b = &mut buf[..len];
                w.sim.block_on(sd.eeprom_read_raw(md, start as u16, b))
            };
            ranges += 1;
            if len % 2 == 1 {
                odd += 1;
            }
            th.add(start as u64);
            th.add(len as u64);
            match res {
                Err(e) => {
                    out.violations.push(sim_error_violation("eeprom_read_raw", &e));
                    break;
                }
                Ok(Err(e)) => {
                    out.violations.push(viol("range-read-error", format!("device {}: eeprom_read_raw(start word {:#06x}, {} bytes) of a {} byte EEPROM failed with {:?}", di, start, len, img.len(), e)));
                    break;
                }
                Ok(Ok(nread)) => {
                    let want = &img[start * 2..start * 2 + len];
                    if nread > len || buf[..nread] != want[..nread] {
                        out.violations.push(viol(
                            "range-read-wrong-bytes",
                            format!("device {} ({} byte SII reads): eeprom_read_raw(start word {:#06x}, {} bytes) returned {} bytes {:02x?}; stored there: {:02x?}", di, if spec.read8 { 8 } else { 4 }, start, len, nread, &buf[..nread.min(len)], want),
                        ));
                        break;
                    }
                    if buf[len..] != [0xA5; 4] {
                        out.violations.push(viol("range-read-beyond-buffer", format!("device {}: a {} byte read wrote past the requested range", di, len)));
                        break;
                    }
                    if nread != len {
                        out.violations.push(viol(
                            if len % 2 == 1 && nread == len - 1 { "range-read-short-odd-length" } else { "range-read-short" },
                            format!("device {}: eeprom_read_raw(start word {:#06x}, {} bytes) returned only {} bytes although {} bytes are stored from there", di, start, len, nread, img.len() - start * 2),
                        ));
                        break;
                    }
                }
            }
        }
        if !out.violations.is_empty() {
            break;
        }
        // Operation sequences on ONE range (gen >= 2): this is how every category parser walks its
        // category. Reads return consecutive bytes, clamped to the range; skips move the position.
        if crate::tape::gen() >= 2 {
            let addr = 0x1000 + di as u16;
            for _ in 0..(3 + w.sim.tape.choose(4, "n_range_progs")) {
                let start = match w.sim.tape.choose(3, "prog_start_class") {
                    0 => 0x40 + w.sim.tape.choose(0x60, "prog_start_cat"),
                    1 => w.sim.tape.choose(0x40, "prog_start_hdr"),
                    _ => w.sim.tape.choose(words.saturating_sub(64).max(1), "prog_start_any"),
                };
                let room = (words - start.min(words)) * 2;
                let len_bytes = (1 + w.sim.tape.choose(64, "prog_len")).min(room.max(1)) & !0usize;
                let len_bytes = if len_bytes % 2 == 1 { len_bytes + 1 } else { len_bytes }; // start_at takes bytes, ranges are whole words
                if len_bytes > room {
                    continue;
                }
                let n_ops = 2 + w.sim.tape.choose(6, "prog_ops");
                let mut ops: Vec<(u8, u16)> = Vec::new();
                // model
                let (mut pos, end) = (start * 2, start * 2 + len_bytes);
                let mut want: Vec<u8> = Vec::new();
                let mut want_err = false;
                let mut want_done = 0usize;
                for _ in 0..n_ops {
                    let kind = w.sim.tape.choose(4, "prog_op_kind");
                    match kind {
                        0 | 3 => {
                            let n = w.sim.tape.pick(&[3usize, 1, 2, 8, 5, 4, 7, 6, 16, 0], "prog_read_n");
                            ops.push((0, n as u16));
                            if !want_err {
                                let m = n.min(end - pos);
                                want.extend_from_slice(&img[pos..pos + m]);
                                pos += m;
                                want_done += 1;
                            }
                        }
                        1 => {
                            let n = w.sim.tape.choose(6, "prog_skip_n");
                            ops.push((1, n as u16));
                            if !want_err {
                                if pos + n >= end {
                                    want_err = true;
                                } else {
                                    pos += n;
                                    want_done += 1;
                                }
                            }
                        }
                        _ => {
                            // read_byte does not look at the range end; only issue it inside the range
                            if !want_err && pos < end {
                                ops.push((2, 0));
                                want.push(img[pos]);
                                pos += 1;
                                want_done += 1;
                            }
                        }
                    }
                }
                let mut buf = vec![0x5Au8; 200];
                let res = w.sim.block_on(ethercrab::verif::eeprom_range_ops(md, addr, start as u16, len_bytes as u16, &ops, &mut buf));
                seq_progs += 1;
                match res {
                    Err(e) => {
                        out.violations.push(sim_error_violation("eeprom range operations", &e));
                        break;
                    }
                    Ok((stored, done, err)) => {
                        let ok = stored == want.len() && buf[..stored] == want[..] && done == want_done && err.is_some() == want_err;
                        if !ok {
                            out.violations.push(viol(
                                "range-sequence-wrong",
                                format!("device {} ({} byte SII reads): on the range of {} bytes at word {:#06x} the operations {:?} (0 = read n, 1 = skip n, 2 = read one byte) returned {} bytes {:02x?} after {} operations (error {:?}); stored there: {} bytes {:02x?} after {} operations (error expected: {})", di, if spec.read8 { 8 } else { 4 }, len_bytes, start, ops, stored, &buf[..stored.min(200)], done, err, want.len(), want, want_done, want_err),
                            ));
                            break;
                        }
                    }
                }
            }
            if !out.violations.is_empty() {
                break;
            }
            // The parsed view: every crate-internal EEPROM query against what the image encodes.
            match w.sim.block_on(ethercrab::verif::eeprom_parsed(md, addr)) {
                Err(e) => {
                    out.violations.push(sim_error_violation("eeprom queries", &e));
                    break;
                }
                Ok(p) => {
                    parsed_views += 1;
                    let im = &spec.image;
                    let mut bad = |what: &str, got: String, want: String, out: &mut CaseOutcome| {
                        out.violations.push(viol(&format!("parsed-{}-wrong", what), format!("device {}: {} reported as {}, the EEPROM encodes {}", di, what, got, want)));
                    };
                    // sync managers (capacity 8)
                    let sms = im.sync_managers();
                    let want_sm: Vec<(u16, u16, u8, u8, u8, u8)> = sms
                        .iter()
                        .map(|s| {
                            let eff = if s.usage != 0 {
                                s.usage
                            } else {
                                match (s.control & 3, (s.control >> 2) & 3) {
                                    (0, 0) => 4,
                                    (0, _) => 3,
                                    (_, 0) => 2,
                                    _ => 1,
                                }
                            };
                            (s.start, s.length, s.control, s.enable, s.usage, eff)
                        })
                        .collect();
                    match &p.sync_managers {
                        Ok(got) => {
                            if sms.len() > 8 || got.as_slice() != want_sm.as_slice() {
                                bad("sync-managers", format!("{:x?}", got), format!("{:x?}", want_sm), &mut out);
                            }
                        }
                        Err(e) => {
                            if sms.len() <= 8 {
                                bad("sync-managers", format!("error {:?}", e), format!("{:x?}", want_sm), &mut out);
                            }
                        }
                    }
                    // FMMU usage (0xff is an alternative spelling of "unused")
                    // Category lengths are in words: an odd number of FMMUs is stored with one pad
                    // byte (zero = unused), which is indistinguishable from a declared unused FMMU.
                    let mut want_f: Vec<u8> = im.fmmus().iter().map(|u| if *u == 0xff { 0 } else { *u }).collect();
                    if want_f.len() % 2 == 1 {
                        want_f.push(0);
                    }
                    match &p.fmmus {
                        Ok(got) => {
                            if want_f.len() <= 16 && got.as_slice() != want_f.as_slice() {
                                bad("fmmu-usage", format!("{:?}", got), format!("{:?}", want_f), &mut out);
                            }
                        }
                        Err(e) => {
                            if want_f.len() <= 16 {
                                bad("fmmu-usage", format!("error {:?}", e), format!("{:?}", want_f), &mut out);
                            }
                        }
                    }
                    // FMMU -> sync manager mapping
                    let want_x: Vec<u8> = im.fmmu_ex().iter().map(|e| e[1]).collect();
                    match &p.fmmu_mappings {
                        Ok(got) => {
                            if want_x.len() <= 16 && got.as_slice() != want_x.as_slice() {
                                bad("fmmu-mapping", format!("{:?}", got), format!("{:?}", want_x), &mut out);
                            }
                        }
                        Err(e) => {
                            if want_x.len() <= 16 {
                                bad("fmmu-mapping", format!("error {:?}", e), format!("{:?}", want_x), &mut out);
                            }
                        }
                    }
                    if !want_x.is_empty() {
                        out.probes.insert(format!("fmmu_ex_entries_{}", if want_x.len() >= 2 { "2_or_more" } else { "1" }), 1);
                    }
                    // PDOs
                    for (name, got, want) in [("tx-pdos", &p.tx_pdos, im.tx_pdos()), ("rx-pdos", &p.rx_pdos, im.rx_pdos())] {
                        let want_rows: Vec<(u16, u8, u8, u16)> = want.iter().map(|d| (d.index, d.entries.len() as u8, d.sm, d.bit_len() as u16)).collect();
                        let representable = want.len() <= 64 && want.iter().all(|d| d.bit_len() <= 0xffff && d.entries.len() <= 255);
                        match got {
                            Ok(g) => {
                                if representable && g.as_slice() != want_rows.as_slice() {
                                    bad(name, format!("{:x?}", g), format!("{:x?} (index, entries, sync manager, bits)", want_rows), &mut out);
                                }
                            }
                            Err(e) => {
                                if representable {
                                    bad(name, format!("error {:?}", e), format!("{:x?}", want_rows), &mut out);
                                }
                            }
                        }
                    }
                    // mailbox settings
                    let m = &im.header.mailbox;
                    let want_m = (m.recv_offset, m.recv_size, m.send_offset, m.send_size, m.protocols as u8);
                    match &p.mailbox {
                        Ok(got) if *got == want_m => {}
                        other => bad("mailbox", format!("{:x?}", other), format!("{:x?}", want_m), &mut out),
                    }
                    // general category
                    match (&p.general, im.general()) {
                        (Ok(got), Some(g)) => {
                            let want_g = (g.name_idx, g.coe_details, g.foe != 0, g.eoe != 0, g.ebus_current);
                            if *got != want_g {
                                bad("general", format!("{:?}", got), format!("{:?}", want_g), &mut out);
                            }
                        }
                        (Err(_), None) => {}
                        (got, want) => bad("general", format!("{:?}", got), format!("{:?}", want.map(|g| (g.name_idx, g.coe_details, g.foe, g.eoe, g.ebus_current))), &mut out),
                    }
                    let h = &im.header;
                    match &p.identity {
                        Ok(got) if *got == (h.vendor, h.product, h.revision, h.serial) => {}
                        other => bad("identity", format!("{:x?}", other), format!("{:x?}", (h.vendor, h.product, h.revision, h.serial)), &mut out),
                    }
                    match &p.station_alias {
                        Ok(got) if *got == h.alias => {}
                        other => bad("alias", format!("{:x?}", other), format!("{:x?}", h.alias), &mut out),
                    }
                    match &p.size_bytes {
                        Ok(got) if *got == (h.size_word as usize + 1) * 128 => {}
                        other => bad("size", format!("{:?}", other), format!("{}", (h.size_word as usize + 1) * 128), &mut out),
                    }
                }
            }
            if !out.violations.is_empty() {
                break;
            }
        }
        // Typed reads over a menu of T.
        for _ in 0..6 {
            let start = w.sim.tape.choose(words.saturating_sub(8).max(1), "typed_start");
            let at = start * 2;
            typed += 1;
            macro_rules! typed_read {
                ($t:ty, $n:expr, $conv:expr) => {{
                    match w.sim.block_on(sd.eeprom_read::<$t>(md, start as u16)) {
                        Err(e) => out.violations.push(sim_error_violation("eeprom_read", &e)),
                        Ok(Err(e)) => out.violations.push(viol(
                            if $n % 2 == 1 { "typed-read-error-odd-length" } else { "typed-read-error" },
                            format!("device {}: eeprom_read::<{}>(word {:#06x}) failed with {:?}", di, stringify!($t), start, e),
                        )),
                        Ok(Ok(v)) => {
                            let want: $t = $conv(&img[at..at + $n]);
                            if v != want {
                                out.violations.push(viol("typed-read-wrong", format!("device {}: eeprom_read::<{}>(word {:#06x}) = {:?}, stored {:?}", di, stringify!($t), start, v, want)));
                            }
                        }
                    }
                }};
            }
            match w.sim.tape.choose(6, "typed_kind") {
                0 => typed_read!(u16, 2, |b: &[u8]| u16::from_le_bytes([b[0], b[1]])),
                1 => typed_read!(u32, 4, |b: &[u8]| u32::from_le_bytes([b[0], b[1], b[2], b[3]])),
                2 => typed_read!(u64, 8, |b: &[u8]| u64::from_le_bytes(b.try_into().unwrap())),
                3 => typed_read!([u8; 6], 6, |b: &[u8]| -> [u8; 6] { b.try_into().unwrap() }),
                4 => typed_read!(u8, 1, |b: &[u8]| b[0]),
                _ => typed_read!([u8; 3], 3, |b: &[u8]| -> [u8; 3] { b.try_into().unwrap() }),
            }
            if !out.violations.is_empty() {
                break;
            }
        }
        if !out.violations.is_empty() {
            break;
        }
    }
    if !w.sim.seg.malformed.is_empty() && out.violations.is_empty() {
        out.violations.push(viol("malformed-frame", w.sim.seg.malformed[0].clone()));
    }
    out.trace_hash = th.0;
    out.tape = w.sim.tape.consumed_values();
    out.steps = w.sim.stats.steps;
    out.sim_time_us = crate::clock::now();
    out.nontrivial = ranges > 0;
    out.probes.insert("ranges_read".into(), ranges);
    out.probes.insert("odd_length_ranges".into(), odd);
    out.probes.insert("typed_reads".into(), typed);
    out.probes.insert("range_operation_sequences".into(), seq_progs);
    out.probes.insert("parsed_views_compared".into(), parsed_views);
    out.probes.insert("big_eeprom(>=256kbit)".into(), big as u64);
    out.probes.insert("rich_image".into(), rich as u64);
    if lag {
        out.faults.insert("dev_lag(sii busy)".into(), 1);
    }
    out.describe = json!({"devices": specs.iter().map(|s| json!({"eeprom_bytes": s.eeprom.len(), "read8": s.read8, "strings": s.image.strings().map_or(0, |v| v.len()), "categories": s.image.categories.iter().map(|c| c.type_code()).collect::<Vec<_>>()})).collect::<Vec<_>>(), "ranges": ranges});
    drop(group);
    out
}

// ---------------------------------------------------------------------------------------------
// C13
// ---------------------------------------------------------------------------------------------

fn hostile_image(t: &mut Tape) -> (Vec<u8>, &'static str) {
    let class = t.choose(if crate::tape::gen() >= 2 { 12 } else { 10 }, "img_class");
    let size = t.pick(&[2048usize, 128, 256, 1024, 4096, 16384, 512], "img_size");
    if class == 11 {
        // A consistent process-data device whose FMMU_EX category has more entries than an ESC has
        // FMMUs, the entries for its real sync managers sitting beyond position 15.
        let cfg = GenCfg { mailbox_pct: 0, pd_pct: 100, fmmu_ex_pct: 100, ..GenCfg::default() };
        let mut spec = netgen::gen_device(t, &cfg, 0);
        let real: Vec<u8> = spec.image.sync_managers().iter().enumerate().filter(|(_, s)| s.usage == 3 || s.usage == 4 || (s.usage == 0 && s.enable != 0)).map(|(i, _)| i as u8).collect();
        let lead = 16 + t.choose(20, "fmmu_ex_lead");
        let filler = t.pick(&[0xffu8, 9, 15, 200], "fmmu_ex_filler");
        let mut entries: Vec<[u8; 3]> = (0..lead).map(|_| [0u8, filler, 0u8]).collect();
        for r in &real {
            entries.push([0, *r, 0]);
        }
        let mut replaced = false;
        for c in spec.image.categories.iter_mut() {
            if let sii::Category::FmmuEx(x) = c {
                *x = entries.clone();
                replaced = true;
            }
        }
        if !replaced {
            spec.image.categories.push(sii::Category::FmmuEx(entries));
        }
        return (spec.image.encode(true), "fmmu-ex-overlong");
    }
    if class == 10 {
        // A category chain that leaves the 64 Ki word address space (exactly at its end, or a few
        // words beyond) and whose continuation in the header area leads back to the first category:
        // a walk that wraps instead of stopping never ends.
        let cfg = GenCfg { mailbox_pct: 50, ..GenCfg::default() };
        let spec = netgen::gen_device(t, &cfg, 0);
        let mut img = spec.eeprom.clone();
        if img.len() < 0x100 {
            img.resize(0x100, 0xff);
        }
        let put = |img: &mut Vec<u8>, word: usize, v: u16| img[word * 2..word * 2 + 2].copy_from_slice(&v.to_le_bytes());
        // Types no query looks for, so every walk goes round.
        let ty = |t: &mut Tape| t.pick(&[0x1000u16, 0x0800, 0x2abc, 0x0002, 0x7fff], "cycle_type");
        // Optionally keep some real categories in front of the wrapping one.
        let mut at = 0x40usize;
        if t.flag(40, 100, "cycle_keep_first") {
            let len = u16::from_le_bytes([img[at * 2 + 2], img[at * 2 + 3]]) as usize;
            let ty0 = u16::from_le_bytes([img[at * 2], img[at * 2 + 1]]);
            if ty0 != 0xffff && at + 2 + len + 2 < img.len() / 2 {
                at += 2 + len;
            }
        }
        let land = t.pick(&[0usize, 1, 2, 8, 0x3e, 0x20, 5], "cycle_land");
        let v = ty(t);
        put(&mut img, at, v);
        put(&mut img, at + 1, ((0x10000 + land - (at + 2)) & 0xffff) as u16);
        // From the landing word back to the first category, in one or two hops.
        let two_hops = land + 6 <= 0x40 && t.flag(30, 100, "cycle_two_hops");
        let v = ty(t);
        put(&mut img, land, v);
        if two_hops {
            let mid = land + 2 + t.choose(0x40 - (land + 4) - 1, "cycle_mid");
            put(&mut img, land + 1, (mid - (land + 2)) as u16);
            let v = ty(t);
            put(&mut img, mid, v);
            put(&mut img, mid + 1, (0x40 - (mid + 2)) as u16);
        } else {
            put(&mut img, land + 1, (0x40 - (land + 2)) as u16);
        }
        return (img, "wrap-cycle");
    }
    if class == 9 {
        // A consistent image whose PDOs are as large as the format allows: several PDOs of up to 255
        // entries of up to 255 bits each, so that bit-length sums exceed 16 bits.
        let cfg = GenCfg { mailbox_pct: 0, pd_pct: 100, ..GenCfg::default() };
        let mut spec = netgen::gen_device(t, &cfg, 0);
        let n_pdos = 1 + t.choose(4, "big_pdos");
        for c in spec.image.categories.iter_mut() {
            if let sii::Category::TxPdo(p) | sii::Category::RxPdo(p) = c {
                let sm = p.first().map_or(0, |x| x.sm);
                let base = p.first().map_or(0x1a00, |x| x.index);
                *p = (0..n_pdos)
                    .map(|k| sii::PdoDesc {
                        index: base + k as u16,
                        sm,
                        dc_sync: 0,
                        name_idx: 0,
                        flags: 0,
                        entries: (0..t.pick(&[255usize, 200, 129, 255], "big_entries"))
                            .map(|e| sii::PdoEntryDesc { index: 0x6000, sub: e as u8, name_idx: 0, data_type: 0, bit_len: t.pick(&[255u8, 128, 255, 64], "big_bits"), flags: 0 })
                            .collect(),
                    })
                    .collect();
            }
        }
        spec.image.header.size_word = 255;
        return (spec.image.encode(true), "pdo-sum-extremes");
    }
    match class {
        0 => (vec![0xff; size], "blank-ff"),
        1 => (vec![0x00; size], "blank-00"),
        2 => ((0..size).map(|_| t.choose(256, "rnd") as u8).collect(), "random"),
        _ => {
            // Structured, then mutated.
            let cfg = GenCfg {
                sii_opts: GenOpts { max_strings: 20, max_string_len: 100, ..GenOpts::default() },
                max_pdos: 6,
                max_entries: 8,
                mailbox_pct: 70,
                ..GenCfg::default()
            };
            let spec = netgen::gen_device(t, &cfg, 0);
            let mut img = spec.eeprom.clone();
            let label = match class {
                3 => {
                    // length fields of categories set to hostile values
                    let mut w = 0x40usize;
                    let mut cats = Vec::new();
                    while w * 2 + 4 <= img.len() {
                        let ty = u16::from_le_bytes([img[w * 2], img[w * 2 + 1]]);
                        if ty == 0xffff {
                            break;
                        }
                        let len = u16::from_le_bytes([img[w * 2 + 2], img[w * 2 + 3]]) as usize;
                        cats.push(w);
                        w += 2 + len;
                    }
                    if !cats.is_empty() {
                        let c = cats[t.choose(cats.len(), "which_cat")];
                        let v = t.pick(&[0xffffu16, 0, 0xfffe, 0x8000, 0x7fff, 1], "hostile_len");
                        img[c * 2 + 2..c * 2 + 4].copy_from_slice(&v.to_le_bytes());
                    }
                    "category-length"
                }
                4 => {
                    // remove the end marker and let the chain run into the blank area / wrap
                    for i in (0x80..img.len()).step_by(2) {
                        if img[i] == 0xff && img[i + 1] == 0xff {
                            img[i] = t.pick(&[0x00u8, 0x28, 0x0a], "end_lo");
                            img[i + 1] = 0;
                            break;
                        }
                    }
                    "no-end-marker"
                }
                5 => {
                    img[0x7c..0x7e].copy_from_slice(&t.pick(&[511u16, 0xffff, 1023, 4095, 0x8000], "size_word").to_le_bytes());
                    "size-word"
                }
                6 => {
                    let n = 1 + t.choose(12, "flips");
                    for _ in 0..n {
                        let i = t.choose(img.len().min(0x400), "flip_at");
                        img[i] ^= 1 << t.choose(8, "flip_bit");
                    }
                    "bit-flips"
                }
                7 => {
                    // string indices past the table, 255 entry PDOs with 255 bit entries
                    for i in 0x80..img.len().saturating_sub(8) {
                        if img[i] == 30 && img[i + 1] == 0 && i % 2 == 0 {
                            img[i + 4 + 2] = 0xff;
                            img[i + 4 + 3] = t.pick(&[0xffu8, 200, 1], "name_idx");
                            break;
                        }
                    }
                    for i in (0x80..img.len().saturating_sub(16)).step_by(2) {
                        if (img[i] == 50 || img[i] == 51) && img[i + 1] == 0 {
                            img[i + 4 + 2] = 0xff; // nEntries
                            for k in 0..8 {
                                let e = i + 4 + 8 + k * 8 + 5;
                                if e < img.len() {
                                    img[e] = 0xff;
                                }
                            }
                        }
                    }
                    "index-and-count-extremes"
                }
                _ => {
                    let cut = 0x80 + t.choose(img.len() - 0x80, "cut");
                    img.truncate(cut & !1);
                    "truncated"
                }
            };
            (img, label)
        }
    }
}

pub fn c13_case(rs: u64, _nonce: u64, replay: Option<Vec<u32>>) -> CaseOutcome {
    let mut t = tape_of(rs, replay);
    let mut out = CaseOutcome::default();
    let (img, class) = hostile_image(&mut t);
    let read8 = t.flag(50, 100, "read8");
    let flags = t.pick(&[0x0000u16, 0x010d, 0x0004], "support");
    let dev = Device::new(img.clone(), read8, flags, 8, 8);
    let seg = Segment::chain(vec![dev]);
    let wcfg = WorldCfg {
        static_sync_iterations: 0,
        state_transition_us: 3_000,
        mailbox_echo_us: 1_000,
        mailbox_response_us: 1_000,
        ..WorldCfg::default()
    };
    let mut w = World::new(&wcfg, seg, t);
    // Budget: far above the legitimate maximum of walking 64 Ki words.
    w.sim.max_steps = 3_000_000;
    let md = w.md();
    let mut th = TraceHash::default();
    th.add_bytes(&img[..img.len().min(0x200)]);
    th.add(img.len() as u64);
    let mut ops = 0u64;
    let loop_check = |w: &World, out: &mut CaseOutcome, op: &str| {
        if let Some((addr, n)) = w.sim.seg.devices[0].stats.sii_addr_hist.iter().max_by_key(|(_, n)| **n) {
            if *n > 70_000 {
                out.violations.push(viol("eeprom-loop", format!("{} read SII word {:#06x} {} times", op, addr, n)));
            }
        }
    };
    let init = w.sim.block_on(md.init_single_group::<2, 64>(now_ns));
    ops += 1;
    out.describe = json!({"class": class, "image_bytes": img.len(), "read8": read8, "head": format!("{:02x?}", &img[..img.len().min(64)])});
    let group: Option<SubDeviceGroup<2, 64>> = match init {
        Err(e) => {
            let mut v = sim_error_violation(&format!("init with a {} EEPROM image", class), &e);
            v.detail = format!("{} [{}]", v.detail, hang_context(&w));
            out.violations.push(v);
            None
        }
        Ok(Err(_)) => None,
        Ok(Ok(g)) => Some(g),
    };
    loop_check(&w, &mut out, "init");
    if let (Some(group), true) = (group, out.violations.is_empty()) {
        // Every EEPROM-derived public query.
        if let Ok(sd) = group.subdevice(md, 0) {
            match w.sim.block_on(sd.description()) {
                Err(e) => out.violations.push(sim_error_violation(&format!("description() on a {} image", class), &e)),
                Ok(_) => {}
            }
            ops += 1;
            match w.sim.block_on(sd.eeprom_size(md)) {
                Err(e) => out.violations.push(sim_error_violation(&format!("eeprom_size() on a {} image", class), &e)),
                Ok(_) => {}
            }
            ops += 1;
            let mut buf = [0u8; 32];
            let start = w.sim.tape.pick(&[0u16, 0x3e, 0x7fff, 0x8000, 0xffff, 0xfff0], "rd_start");
            match w.sim.block_on(sd.eeprom_read_raw(md, start, &mut buf)) {
                Err(e) => out.violations.push(sim_error_violation(&format!("eeprom_read_raw({:#06x}, 32) on a {} image", start, class), &e)),
                Ok(_) => {}
            }
            ops += 1;
        }
        loop_check(&w, &mut out, "queries");
        if out.violations.is_empty() {
            // The configuration steps built on the parsed EEPROM.
            match w.sim.block_on(group.into_op(md)) {
                Err(e) => out.violations.push(sim_error_violation(&format!("into_op() with a {} EEPROM image", class), &e)),
                Ok(_) => {}
            }
            ops += 1;
            loop_check(&w, &mut out, "into_op");
        }
    }
    out.trace_hash = th.0;
    out.tape = w.sim.tape.consumed_values();
    out.steps = w.sim.stats.steps;
    out.sim_time_us = crate::clock::now();
    out.nontrivial = true;
    out.faults.insert(format!("sii_garbage/{}", class), 1);
    out.probes.insert("operations".into(), ops);
    out.probes.insert("sii_reads".into(), w.sim.seg.devices[0].stats.sii_reads);
    out
}

// ---------------------------------------------------------------------------------------------
// C14
// ---------------------------------------------------------------------------------------------

pub fn c14_case(rs: u64, _nonce: u64, replay: Option<Vec<u32>>) -> CaseOutcome {
    let mut t = tape_of(rs, replay);
    let mut out = CaseOutcome::default();
    let cfg = GenCfg::default();
    let mut big_eeprom = false;
    let (mut specs, mut seg) = netgen::gen_network(&mut t, &cfg, 1);
    // Random header words (the alias write must preserve them and compute the CRC over them).
    {
        let s = &mut specs[0];
        s.image.header.pdi_control = t.bits32("h0") as u16;
        s.image.header.pdi_config = t.bits32("h1") as u16;
        s.image.header.sync_impulse = t.bits32("h2") as u16;
        s.image.header.pdi_config2 = t.bits32("h3") as u16;
        s.image.header.reserved5_6 = [t.bits32("h5") as u16, t.bits32("h6") as u16];
        s.eeprom = s.image.encode(true);
        // A checksum word that does not match (an interrupted earlier write, a factory image
        // that was never sealed): the alias write must leave a correct one behind all the same.
        // An EEPROM of more than 64 KiB (word addresses from 0x8000 up exist).
        if crate::tape::gen() >= 2 && t.flag(15, 100, "big_eeprom") {
            let kbit = t.pick(&[1024usize, 2048, 4096], "big_kbit");
            s.image.header.size_word = (kbit - 1) as u16;
            s.eeprom = s.image.encode(true);
            big_eeprom = true;
        }
        if crate::tape::gen() >= 2 && t.flag(30, 100, "stale_checksum") {
            let v = (t.bits32("stale_crc") as u16) | 0x0100;
            s.eeprom[14..16].copy_from_slice(&v.to_le_bytes());
        }
        seg.devices[0].eeprom = s.eeprom.clone();
    }
    let mode = t.choose(3, "mode"); // 0 alias, 1 generic write, 2 alias with a busy-forever device
    let cmd_errors = t.pick(&[0u32, 1, 3, 19, 20, 21, 25], "cmd_errors");
    let busy_polls = t.choose(4, "busy_polls") as u32;
    seg.devices[0].faults.sii_busy_polls = busy_polls;
    let wcfg = WorldCfg {
        static_sync_iterations: 0,
        eeprom_us: 500,
        ..WorldCfg::default()
    };
    let mut w = World::new(&wcfg, seg, t);
    let md = w.md();
    let mut group = match w.sim.block_on(md.init_single_group::<2, 64>(now_ns)) {
        Ok(Ok(g)) => g,
        Ok(Err(e)) => {
            out.violations.push(viol("init-failed", format!("{:?}", e)));
            out.tape = w.sim.tape.consumed_values();
            return out;
        }
        Err(e) => {
            out.violations.push(sim_error_violation("init", &e));
            out.tape = w.sim.tape.consumed_values();
            return out;
        }
    };
    let before = w.sim.seg.devices[0].eeprom.clone();
    let mut th = TraceHash::default();
    th.add(mode as u64);
    th.add(cmd_errors as u64);
    w.sim.seg.devices[0].stats.sii_write_cmds = 0;
    // gen >= 2: one datagram of the judged operation goes unanswered by the device. The call must
    // then fail, or - if it reports success - have stored exactly what it was asked to store.
    let skip_fault = crate::tape::gen() >= 2 && mode != 2 && w.sim.tape.flag(20, 100, "one_datagram_unanswered");
    let skip_at = if skip_fault { w.sim.tape.choose(24, "unanswered_position") as u64 } else { 0 };
    if mode == 0 || mode == 2 {
        let mut alias = match w.sim.tape.choose(4, "alias_class") {
            0 => w.sim.tape.pick(&[0u16, 1, 0xffff, 0x8000, 0x00ff, 0xff00, 0x1234], "alias_edge"),
            _ => w.sim.tape.choose(0x10000, "alias") as u16,
        };
        // The alias the device already holds (a repeated or retried request).
        if crate::tape::gen() >= 2 && w.sim.tape.flag(20, 100, "alias_same_as_stored") {
            alias = u16::from_le_bytes([before[8], before[9]]);
            out.probes.insert("alias_equals_stored_alias".into(), 1);
            if sii::crc8(&before[0..14]) as u16 != u16::from_le_bytes([before[14], before[15]]) {
                out.probes.insert("alias_equals_stored_alias_with_stale_checksum".into(), 1);
            }
        }
        // A first attempt that fails after the alias word was stored (more command errors than the
        // retry bound on the checksum word), then the retry that is judged below.
        if crate::tape::gen() >= 2 && mode == 0 && w.sim.tape.flag(15, 100, "retry_after_failed_attempt") {
            let errs = w.sim.tape.pick(&[21u32, 25, 30], "first_attempt_errors");
            w.sim.seg.devices[0].arm_sii_cmd_errors_after(1, errs);
            let mut it = group.iter_mut(md);
            let mut sd = it.next().expect("one device");
            let first = w.sim.block_on(sd.set_alias_address(alias));
            drop(it);
            w.sim.seg.devices[0].arm_sii_cmd_errors(0);
            // The bound on write commands is per call: count the judged call only.
            w.sim.seg.devices[0].stats.sii_write_cmds = 0;
            out.probes.insert("retry_after_failed_attempt".into(), 1);
            if let Err(e) = first {
                out.violations.push(sim_error_violation("set_alias_address", &e));
            }
        }
        th.add(alias as u64);
        if mode == 2 {
            w.sim.seg.devices[0].faults.sii_busy_forever = true;
        } else {
            w.sim.seg.devices[0].arm_sii_cmd_errors(cmd_errors);
        }
        if skip_fault {
            let base = w.sim.seg.devices[0].serviced_counter;
            w.sim.seg.devices[0].faults.skip_one = Some(base + skip_at);
            w.sim.seg.devices[0].first_refused = None;
        }
        let res = {
            let mut it = group.iter_mut(md);
            let mut sd = it.next().expect("one device");
            let r = w.sim.block_on(sd.set_alias_address(alias));
            let reported = sd.alias_address();
            r.map(|r| (r, reported))
        };
        let after = w.sim.seg.devices[0].eeprom.clone();
        let diff: Vec<usize> = (0..before.len() / 2).filter(|i| before[i * 2..i * 2 + 2] != after[i * 2..i * 2 + 2]).collect();
        out.describe = json!({"mode": if mode == 0 { "set-alias" } else { "set-alias-busy-forever" }, "alias": alias, "cmd_errors": cmd_errors, "busy_polls": busy_polls, "changed_words": diff});
        match res {
            Err(e) => out.violations.push(sim_error_violation("set_alias_address", &e)),
            Ok((r, reported)) => {
                if mode == 2 {
                    match r {
                        Err(Error::Timeout(_)) => {}
                        other => out.violations.push(viol("busy-device-not-timeout", format!("set_alias_address on a device whose SII stays busy returned {:?}", other))),
                    }
                    if !diff.is_empty() {
                        out.violations.push(viol("alias-write-touched-other-words", format!("busy device: words {:?} changed", diff)));
                    }
                } else {
                    // Expected image: alias word and checksum word only.
                    let mut want = before.clone();
                    want[8..10].copy_from_slice(&alias.to_le_bytes());
                    let crc = sii::crc8(&want[0..14]) as u16;
                    want[14..16].copy_from_slice(&crc.to_le_bytes());
                    let writes_needed = (before[8..10] != want[8..10]) as u32 + (before[14..16] != want[14..16]) as u32;
                    let _ = writes_needed;
                    let unanswered = w.sim.seg.devices[0].first_refused;
                    if unanswered.is_some() {
                        out.faults.insert("single_datagram_unanswered".into(), 1);
                    }
                    if unanswered.is_some() && r.is_err() {
                        // Legitimate failure: nothing outside the two words may have changed.
                        let untouched: Vec<&usize> = diff.iter().filter(|i| **i != 4 && **i != 7).collect();
                        if !untouched.is_empty() {
                            out.violations.push(viol("alias-write-touched-other-words", format!("words {:?} changed", untouched)));
                        }
                    } else if cmd_errors <= 20 {
                        if let Err(e) = r {
                            out.violations.push(viol("alias-write-error", format!("set_alias_address({:#06x}) with {} command errors failed with {:?}", alias, cmd_errors, e)));
                        } else {
                            if after != want {
                                let wrong: Vec<String> = (0..want.len() / 2).filter(|i| want[i * 2..i * 2 + 2] != after[i * 2..i * 2 + 2]).map(|i| format!("word {:#04x}: is {:02x?} should be {:02x?}", i, &after[i * 2..i * 2 + 2], &want[i * 2..i * 2 + 2])).collect();
                                out.violations.push(viol("alias-write-wrong-image", format!("after set_alias_address({:#06x}): {}", alias, wrong.join("; "))));
                            }
                            if reported != alias {
                                out.violations.push(viol("alias-not-reported", format!("alias_address() = {:#06x} after setting {:#06x}", reported, alias)));
                            }
                        }
                    } else {
                        // More command errors than the retry bound: the first word can not be stored.
                        let untouched: Vec<&usize> = diff.iter().filter(|i| **i != 4 && **i != 7).collect();
                        if !untouched.is_empty() {
                            out.violations.push(viol("alias-write-touched-other-words", format!("words {:?} changed", untouched)));
                        }
                    }
                    let cmds = w.sim.seg.devices[0].stats.sii_write_cmds;
                    if cmds > 2 * 21 {
                        out.violations.push(viol("too-many-write-commands", format!("{} write commands for two words (bound 21 each)", cmds)));
                    }
                }
            }
        }
    } else {
        // Generic write of 2..8 bytes (typed API) at any word address.
        let words = before.len() / 2;
        let mut addr = match w.sim.tape.choose(3, "addr_class") {
            0 => w.sim.tape.choose(0x40, "addr_low"),
            1 => words - 1 - w.sim.tape.choose(8, "addr_end"),
            _ => w.sim.tape.choose(words - 8, "addr_any"),
        };
        if big_eeprom && words > 0x8010 {
            // the upper half of the 16 bit word address space
            addr = match w.sim.tape.choose(3, "addr_high_class") {
                0 => 0x8000 + w.sim.tape.choose(0x10, "addr_8000"),
                1 => (0xfff0 + w.sim.tape.choose(8, "addr_top")).min(words - 8),
                _ => (0x8000 + w.sim.tape.choose(0x7ff0, "addr_upper")).min(words - 8),
            };
            out.probes.insert("write_at_word_0x8000_or_above".into(), 1);
        }
        w.sim.seg.devices[0].arm_sii_cmd_errors(cmd_errors.min(20));
        if skip_fault {
            let base = w.sim.seg.devices[0].serviced_counter;
            w.sim.seg.devices[0].faults.skip_one = Some(base + skip_at);
            w.sim.seg.devices[0].first_refused = None;
        }
        let kind = w.sim.tape.choose(if crate::tape::gen() >= 2 { 8 } else { 5 }, "wr_kind");
        let payload: Vec<u8> = (0..8).map(|i| w.sim.tape.choose(256, "wr_byte") as u8 ^ i).collect();
        th.add(addr as u64);
        th.add(kind as u64);
        let sd = group.subdevice(md, 0).expect("device");
        let (res, n) = match kind {
            0 => (w.sim.block_on(sd.eeprom_write_dangerously(md, addr as u16, u16::from_le_bytes([payload[0], payload[1]]))), 2),
            1 => (w.sim.block_on(sd.eeprom_write_dangerously(md, addr as u16, u32::from_le_bytes([payload[0], payload[1], payload[2], payload[3]]))), 4),
            2 => (w.sim.block_on(sd.eeprom_write_dangerously(md, addr as u16, payload[0])), 1),
            3 => (w.sim.block_on(sd.eeprom_write_dangerously(md, addr as u16, payload[0] as i8)), 1),
            5..=7 => {
                // Odd (and other) lengths through the crate's range writer itself: the typed API
                // only offers 1, 2, 4 and 8 byte values. The range is the payload rounded up to
                // whole words, or a few words longer.
                let n = [3usize, 5, 7][kind - 5];
                let range = (n + 1) / 2 * 2 + 2 * w.sim.tape.choose(3, "wr_range_extra");
                let r = w.sim.block_on(ethercrab::verif::eeprom_range_write(md, 0x1000, addr as u16, range as u16, &payload[..n]));
                (r.map(|r| r.map(|count| if count != n { out.violations.push(viol("generic-write-wrong-count", format!("write of {} bytes reported {} bytes written", n, count))) })), n)
            }
            _ => (w.sim.block_on(sd.eeprom_write_dangerously(md, addr as u16, u64::from_le_bytes(payload[..8].try_into().unwrap()))), 8),
        };
        let after = w.sim.seg.devices[0].eeprom.clone();
        let mut want = before.clone();
        let at = addr * 2;
        let room = before.len() - at;
        for i in 0..n.min(room) {
            want[at + i] = payload[i];
        }
        if n % 2 == 1 && at + n < want.len() {
            want[at + n] = 0; // odd trailing byte padded with zero
        }
        out.describe = json!({"mode": "generic-write", "word": addr, "bytes": n, "cmd_errors": cmd_errors.min(20)});
        match res {
            Err(e) => out.violations.push(sim_error_violation("eeprom_write_dangerously", &e)),
            Ok(Err(e)) => {
                if w.sim.seg.devices[0].first_refused.is_some() {
                    // A datagram went unanswered: failing is right; only the addressed words may differ.
                    out.faults.insert("single_datagram_unanswered".into(), 1);
                    let lo = at & !1;
                    let hi = (at + n + 1) & !1;
                    if (0..after.len()).any(|i| (i < lo || i >= hi) && after[i] != before[i]) {
                        out.violations.push(viol("generic-write-touched-other-words", format!("a failed {} byte write at word {:#06x} changed bytes outside its range", n, addr)));
                    }
                } else if n <= room {
                    out.violations.push(viol(if n % 2 == 1 { "generic-write-error-odd-length" } else { "generic-write-error" }, format!("writing {} bytes at word {:#06x} failed with {:?}", n, addr, e)));
                }
            }
            Ok(Ok(())) => {
                if after != want {
                    let wrong: Vec<String> = (0..want.len() / 2).filter(|i| want[i * 2..i * 2 + 2] != after[i * 2..i * 2 + 2]).map(|i| format!("word {:#06x}: is {:02x?} should be {:02x?}", i, &after[i * 2..i * 2 + 2], &want[i * 2..i * 2 + 2])).collect();
                    out.violations.push(viol(if n % 2 == 1 { "generic-write-wrong-image-odd-length" } else { "generic-write-wrong-image" }, format!("writing {} bytes {:02x?} at word {:#06x}: {}", n, &payload[..n], addr, wrong.join("; "))));
                }
            }
        }
    }
    if cmd_errors > 0 {
        out.faults.insert("sii_cmd_error".into(), cmd_errors as u64);
    }
    if busy_polls > 0 {
        out.faults.insert("dev_lag(sii busy)".into(), 1);
    }
    if mode == 2 {
        out.faults.insert("sii_busy_forever".into(), 1);
    }
    out.trace_hash = th.0;
    out.tape = w.sim.tape.consumed_values();
    out.steps = w.sim.stats.steps;
    out.sim_time_us = crate::clock::now();
    out.nontrivial = true;
    drop(group);
    out
}

pub fn run(id: &str, tier: &str, seed: u64, workers: usize) -> i32 {
    let thorough = tier == "thorough";
    let mut pr = PropertyRun::new(id, tier, seed, workers);
    pr.real_components = vec!["ethercrab EEPROM stack (eeprom::{mod, device_provider, types}, subdevice::eeprom), SubDevice EEPROM API, init — real code", "PDU loop — real code"];
    pr.stub_components = vec!["SII interface of the simulated ESC (control/status/address/data registers, busy and error bits)", "EEPROM images: generator + independent parser (sim/src/esc/sii.rs)", "clock, executor, NIC"];
    match id {
        "C12" => {
            pr.assumptions = vec!["well-formed images keep reserved bits zero and enumerations within defined values; images up to 4 Mbit (word addresses are 16 bit, so ranges are sampled below 128 KiB)".into()];
            let (runs, wall) = if thorough { (2_000_000u64, 600u64) } else { (60_000u64, 40u64) };
            pr.replay_witnesses("eeprom-reads", &c12_case);
            pr.batch("eeprom-reads", runs, wall, "one run = 1..2 devices with generated images (strings incl. NUL/non-ASCII, categories in drawn order with unknown ones interleaved, 4/8 byte SII, optional busy polls, sometimes 256 Kbit..4 Mbit), then 20..50 (start word, length) range reads per device incl. odd lengths and ends of the image, typed reads over u8/u16/u32/u64/[u8;3]/[u8;6], eeprom_size and description; non-trivial = at least one range read; distinct = hash of the ranges", &c12_case);
        }
        "C13" => {
            let profile = if cfg!(debug_assertions) { "overflow-checks + debug-assertions" } else { "release arithmetic" };
            pr.assumptions = vec![format!("this binary was built with {}; ./check C13 runs the batch under both build profiles", profile)];
            pr.extra.insert("arithmetic_profile".into(), json!(profile));
            let (runs, wall) = if thorough { (3_000_000u64, 300u64) } else { (60_000u64, 20u64) };
            pr.replay_witnesses("hostile-eeprom", &c13_case);
            pr.batch("hostile-eeprom", runs, wall, "one run = one device carrying a hostile image (blank 0xFF/0x00, random, or structured-then-mutated: hostile category lengths, missing end marker, size word >= 511, bit flips, index/count extremes, truncation), then init, description, eeprom_size, a range read at an extreme address and into_op; oracle = no panic, no operation beyond the step budget, no SII word read more than 70000 times; distinct = hash of the image head", &c13_case);
        }
        _ => {
            pr.assumptions = vec!["the device stores a word when the write command completes; command errors are reported in the status register as on real ESCs".into()];
            let (runs, wall) = if thorough { (5_000_000u64, 400u64) } else { (150_000u64, 30u64) };
            pr.replay_witnesses("alias-and-writes", &c14_case);
            pr.batch("alias-and-writes", runs, wall, "one run = one device with random header words; either set_alias_address(alias) with 0..25 injected command errors and busy polls, or the same against a device whose SII stays busy, or a typed generic write of 1/2/3/4/8 bytes at a drawn word address; oracle = EEPROM image diff equals {alias word, CRC word} (CRC-8 0x07/0xFF over bytes 0..14 computed by the harness), alias reported, bound on write commands, busy => timeout; distinct = hash of (mode, alias/address, fault counts)", &c14_case);
        }
    }
    pr.finish()
}
