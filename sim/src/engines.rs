//! Engine S: an await-level executor that runs ethercrab futures against the segment model under
//! virtual time. Runnable items are {woken tasks, the TX step, due wire deliveries}; the tape picks
//! among them; when nothing is runnable the clock jumps to the next event.

use crate::wire;
use crate::clock;
use crate::enginef::{waker_of, Flag};
use crate::esc::Segment;
use crate::tape::Tape;
use ethercrab::{PduRx, PduTx};
use std::future::Future;
use std::panic::{catch_unwind, AssertUnwindSafe};
use std::pin::Pin;
use std::sync::Arc;
use std::task::{Context, Poll};

pub struct InFlight {
    pub due: u64,
    pub seq: u64,
    pub bytes: Vec<u8>,
}

#[derive(Default, Clone, Debug)]
pub struct SStats {
    pub frames_tx: u64,
    pub frames_rx: u64,
    pub rx_errors: u64,
    pub polls: u64,
    pub clock_jumps: u64,
    pub steps: u64,
    pub max_in_flight: usize,
    pub reordered: u64,
    pub frames_lost: u64,
}

pub struct SimS {
    pub tx: PduTx<'static>,
    pub rx: PduRx<'static>,
    pub seg: Segment,
    pub wire: Vec<InFlight>,
    pub tape: Tape,
    /// Per-frame latency range in microseconds (min, max). Min must be >= 1.
    pub latency: (u64, u64),
    /// Nanoseconds of DC time per microsecond of simulated time (1000) plus a start offset.
    pub dc_epoch_ns: u64,
    pub stats: SStats,
    pub max_steps: u64,
    pub tx_flag: Arc<Flag>,
    seq: u64,
    /// Drop every transmitted frame (cable unplugged) while set.
    pub unplugged: bool,
    /// Lose the response of the n-th (0-based countdown) frame whose first datagram has this
    /// command and register: the devices process the frame, it never comes back.
    pub lose_response: Option<(u8, u16, u32)>,
}

#[derive(Debug, Clone, PartialEq, Eq)]
pub enum SimError {
    /// Step budget exhausted: the operation did not finish.
    Budget,
    /// Nothing is runnable, nothing is in flight, no timer is armed, and the task is still pending.
    Deadlock,
    Panic(String),
}

impl SimS {
    pub fn new(tx: PduTx<'static>, rx: PduRx<'static>, seg: Segment, tape: Tape) -> Self {
        SimS {
            tx,
            rx,
            seg,
            wire: Vec::new(),
            tape,
            latency: (1, 1),
            dc_epoch_ns: 1_000_000,
            stats: SStats::default(),
            max_steps: 5_000_000,
            tx_flag: Flag::new(),
            seq: 0,
            unplugged: false,
            lose_response: None,
        }
    }

    pub fn now_ns(&self) -> u64 {
        self.dc_epoch_ns.wrapping_add(clock::now().wrapping_mul(1000))
    }

    /// Let the TX side send everything that is sendable. The segment processes each frame at the
    /// moment of transmission; the result comes back after a drawn latency.
    fn tx_step(&mut self) -> bool {
        let mut any = false;
        let w = waker_of(&self.tx_flag);
        self.tx.replace_waker(&w);
        self.tx_flag.take();
        while let Some(frame) = self.tx.next_sendable_frame() {
            any = true;
            let now_ns = self.now_ns();
            let seg = &mut self.seg;
            let mut out: Option<Vec<u8>> = None;
            let unplugged = self.unplugged;
            let _ = frame.send_blocking(|bytes| {
                if !unplugged {
                    out = Some(seg.process(bytes, now_ns));
                }
                Ok(bytes.len())
            });
            self.stats.frames_tx += 1;
            let mut out = out;
            if let (Some((cmd, ado, left)), Some(bytes)) = (self.lose_response, out.as_ref()) {
                if let Ok(f) = wire::decode(bytes) {
                    if f.datagrams.first().map_or(false, |d| d.cmd == cmd && u16::from_le_bytes([d.addr[2], d.addr[3]]) == ado) {
                        if left == 0 {
                            self.lose_response = None;
                            self.stats.frames_lost += 1;
                            out = None;
                        } else {
                            self.lose_response = Some((cmd, ado, left - 1));
                        }
                    }
                }
            }
            if let Some(bytes) = out {
                let lat = if self.latency.1 > self.latency.0 {
                    self.latency.0 + self.tape.choose((self.latency.1 - self.latency.0 + 1) as usize, "latency") as u64
                } else {
                    self.latency.0
                };
                self.seq += 1;
                self.wire.push(InFlight {
                    due: clock::now() + lat,
                    seq: self.seq,
                    bytes,
                });
                if self.wire.len() > self.stats.max_in_flight {
                    self.stats.max_in_flight = self.wire.len();
                }
            }
        }
        any
    }

    /// Deliver every frame that is due, earliest first.
    fn rx_step(&mut self) -> bool {
        let now = clock::now();
        let mut any = false;
        loop {
            let mut best: Option<usize> = None;
            for (i, w) in self.wire.iter().enumerate() {
                if w.due <= now && best.map_or(true, |b| (w.due, w.seq) < (self.wire[b].due, self.wire[b].seq)) {
                    best = Some(i);
                }
            }
            let Some(i) = best else { break };
            if self.wire.iter().any(|w| w.seq < self.wire[i].seq) {
                self.stats.reordered += 1;
            }
            let item = self.wire.remove(i);
            any = true;
            self.stats.frames_rx += 1;
            if self.rx.receive_frame(&item.bytes).is_err() {
                self.stats.rx_errors += 1;
            }
        }
        any
    }

    /// Run `tasks` to completion. Returns per-task outputs in task order.
    pub fn run_tasks<'a, T>(&mut self, mut tasks: Vec<Pin<Box<dyn Future<Output = T> + 'a>>>) -> Result<Vec<T>, SimError> {
        let n = tasks.len();
        let flags: Vec<Arc<Flag>> = (0..n).map(|_| Flag::new()).collect();
        for f in &flags {
            f.set();
        }
        let mut results: Vec<Option<T>> = (0..n).map(|_| None).collect();
        let mut done = 0;
        let mut steps = 0u64;
        while done < n {
            steps += 1;
            self.stats.steps += 1;
            if steps > self.max_steps {
                return Err(SimError::Budget);
            }
            // Which tasks are runnable?
            let ready: Vec<usize> = (0..n).filter(|i| results[*i].is_none() && flags[*i].is_set()).collect();
            if !ready.is_empty() {
                let k = if ready.len() > 1 { self.tape.choose(ready.len(), "task") } else { 0 };
                let i = ready[k];
                flags[i].take();
                let waker = waker_of(&flags[i]);
                let mut cx = Context::from_waker(&waker);
                self.stats.polls += 1;
                let r = catch_unwind(AssertUnwindSafe(|| tasks[i].as_mut().poll(&mut cx)));
                match r {
                    Ok(Poll::Ready(v)) => {
                        results[i] = Some(v);
                        done += 1;
                    }
                    Ok(Poll::Pending) => {}
                    Err(p) => {
                        let msg = p.downcast_ref::<&str>().map(|s| s.to_string()).or_else(|| p.downcast_ref::<String>().cloned()).unwrap_or_else(|| "panic".into());
                        return Err(SimError::Panic(msg));
                    }
                }
                // Transmission happens as soon as a task has made frames sendable.
                self.tx_step();
                continue;
            }
            if self.tx_step() {
                continue;
            }
            if self.rx_step() {
                continue;
            }
            // Nothing runnable now: advance time to the next wire delivery or timer.
            let next_wire = self.wire.iter().map(|w| w.due).min();
            let next_timer = clock::next_deadline();
            let next = match (next_wire, next_timer) {
                (Some(a), Some(b)) => Some(a.min(b)),
                (a, b) => a.or(b),
            };
            match next {
                Some(t) => {
                    self.stats.clock_jumps += 1;
                    clock::advance_to(t.max(clock::now()));
                    if t <= clock::now() && next_wire.map_or(true, |w| w > clock::now()) && clock::next_deadline().map_or(false, |d| d <= clock::now()) {
                        // Timer at "now" that keeps re-arming at zero distance: still counts as a step.
                    }
                }
                None => return Err(SimError::Deadlock),
            }
        }
        Ok(results.into_iter().map(|r| r.unwrap()).collect())
    }

    pub fn block_on<'a, T>(&mut self, fut: impl Future<Output = T> + 'a) -> Result<T, SimError> {
        let tasks: Vec<Pin<Box<dyn Future<Output = T> + 'a>>> = vec![Box::pin(fut)];
        self.run_tasks(tasks).map(|mut v| v.pop().unwrap())
    }
}
