//! The choice tape: every nondeterministic decision of a run goes through [`Tape`].
//!
//! In *search* mode decisions are drawn from the PRNG and recorded; in *replay* mode they are read
//! back (clamped to the permitted range; a tape that is too short yields 0). Value 0 is always the
//! "boring" decision so that shrinking a tape toward zeros simplifies the scenario.

use crate::rng::Rng;
use std::cell::Cell;

/// Generation of the scenario generators. A generator that gains a new decision draws it only
/// when `gen() >= <the generation that introduced it>`, so that replay files recorded by an older
/// generation (they carry their "gen"; absent = 1) keep describing the same scenario.
pub const CURRENT_GEN: u32 = 2;

thread_local! {
    static GEN: Cell<u32> = const { Cell::new(CURRENT_GEN) };
}

pub fn gen() -> u32 {
    GEN.with(|g| g.get())
}

/// Run `f` under generator generation `g` (replay of an older file), restoring the current one.
pub fn with_gen<T>(g: u32, f: impl FnOnce() -> T) -> T {
    let old = GEN.with(|c| c.replace(g));
    let r = f();
    GEN.with(|c| c.set(old));
    r
}

#[derive(Clone, Debug)]
pub struct Tape {
    rng: Option<Rng>,
    /// Recorded (search) or supplied (replay) decisions.
    pub values: Vec<u32>,
    /// Label of every decision actually consumed by this run.
    pub labels: Vec<&'static str>,
    pos: usize,
}

impl Tape {
    pub fn search(seed: u64) -> Self {
        Self {
            rng: Some(Rng::new(seed)),
            values: Vec::new(),
            labels: Vec::new(),
            pos: 0,
        }
    }

    pub fn replay(values: Vec<u32>) -> Self {
        Self {
            rng: None,
            values,
            labels: Vec::new(),
            pos: 0,
        }
    }

    pub fn is_replay(&self) -> bool {
        self.rng.is_none()
    }

    /// Number of decisions consumed so far.
    pub fn consumed(&self) -> usize {
        self.pos
    }

    /// The decisions consumed by this run (what a replay needs).
    pub fn consumed_values(&self) -> Vec<u32> {
        let mut v = self.values.clone();
        v.truncate(self.pos);
        while v.len() < self.pos {
            v.push(0);
        }
        v
    }

    fn record(&mut self, label: &'static str, n: u32, draw: impl FnOnce(&mut Rng) -> u32) -> u32 {
        debug_assert!(n > 0);
        let v = match self.rng.as_mut() {
            Some(rng) => {
                let v = draw(rng).min(n - 1);
                self.values.push(v);
                v
            }
            None => {
                let v = self.values.get(self.pos).copied().unwrap_or(0);
                if v >= n {
                    v % n
                } else {
                    v
                }
            }
        };
        self.pos += 1;
        self.labels.push(label);
        v
    }

    /// Uniform decision in `0..n`.
    pub fn choose(&mut self, n: usize, label: &'static str) -> usize {
        if n <= 1 {
            return 0;
        }
        self.record(label, n as u32, |r| r.below(n as u64) as u32) as usize
    }

    /// Decision in `0..n` where 0 (the boring value) is taken with probability `p0_num/p0_den` and
    /// the rest uniformly.
    pub fn choose_biased(&mut self, n: usize, p0_num: u32, p0_den: u32, label: &'static str) -> usize {
        if n <= 1 {
            return 0;
        }
        self.record(label, n as u32, |r| {
            if r.below(p0_den as u64) < p0_num as u64 {
                0
            } else {
                1 + r.below(n as u64 - 1) as u32
            }
        }) as usize
    }

    /// `true` with probability `num/den`. Recorded as the decision itself (0 = false).
    pub fn flag(&mut self, num: u32, den: u32, label: &'static str) -> bool {
        // Certain outcomes are not decisions (and must not depend on what a shrunk tape holds).
        if num == 0 {
            return false;
        }
        if num >= den {
            return true;
        }
        self.record(label, 2, |r| (r.below(den as u64) < num as u64) as u32) == 1
    }

    /// Value in `lo..=hi`, `lo` being the boring one.
    pub fn range(&mut self, lo: u64, hi: u64, label: &'static str) -> u64 {
        if hi <= lo {
            return lo;
        }
        let n = (hi - lo + 1).min(u32::MAX as u64) as usize;
        lo + self.choose(n, label) as u64
    }

    /// Pick from a small table; index 0 is the boring entry.
    pub fn pick<T: Copy>(&mut self, items: &[T], label: &'static str) -> T {
        items[self.choose(items.len(), label)]
    }

    /// A full 32 bit value (for payload nonces etc.). 0 is boring.
    pub fn bits32(&mut self, label: &'static str) -> u32 {
        self.record(label, u32::MAX, |r| r.next_u64() as u32)
    }
}
