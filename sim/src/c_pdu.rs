//! Checks C01, C02, C03 and C06: the PDU-loop scenario under engine F.

use crate::checks::PropertyRun;
use crate::enginef::{Anomaly, TraceRec};
use crate::hb;
use crate::pduscen::{self, Prop, RunOutcome};
use crate::runner::{CaseOutcome, Violation};
use crate::tape::Tape;
use ethercrab::verif::site;
use serde_json::json;

pub fn signature_of(a: &Anomaly) -> String {
    match a.clause {
        "buffer-race" => {
            let names: Vec<&str> = a.sites.iter().map(|s| site::name(*s)).collect();
            format!("{}@{}", a.clause, names.join("+"))
        }
        "lifecycle-order" => format!(
            "lifecycle-order@{}->{}@{}",
            hb::state_name(a.sites[0] as u8),
            hb::state_name(a.sites[1] as u8),
            site::name(a.sites[2])
        ),
        _ => a.clause.to_string(),
    }
}

pub fn render_trace(trace: &[TraceRec], parties: &[&str], keep: usize, until_step: u64) -> Vec<String> {
    let end = trace.iter().position(|r| r.step > until_step).unwrap_or(trace.len());
    let start = end.saturating_sub(keep);
    trace[start..end]
        .iter()
        .map(|r| {
            let who = parties.get(r.party as usize).copied().unwrap_or("?");
            let slot = if r.slot >= 0 { format!(" slot{}", r.slot) } else { String::new() };
            match r.kind {
                0 => format!("{:>6} {:<5} at {}{}", r.step, who, site::name(r.site), slot),
                1 => format!("{:>6} {:<5} atomic {}{} loc={} ord/kind={:#x}", r.step, who, site::name(r.site), slot, r.a, r.b),
                2 => format!("{:>6} {:<5} state{} {} -> {}", r.step, who, slot, hb::state_name(r.a as u8), hb::state_name(r.b as u8)),
                3 => format!("{:>6} {:<5} state{} is {}, wanted -> {} (failed)", r.step, who, slot, hb::state_name(r.a as u8), hb::state_name(r.b as u8)),
                4 => format!("{:>6} {:<5} read  {}{} off={} len={}", r.step, who, site::name(r.site), slot, r.a, r.b),
                5 => format!("{:>6} {:<5} write {}{} off={} len={}", r.step, who, site::name(r.site), slot, r.a, r.b),
                6 => format!("{:>6} {:<5} pre-empted at {} -> party {}", r.step, who, if r.site == 0 { "harness" } else { site::name(r.site) }, r.a),
                7 => format!("{:>6} clock {} -> {} us", r.step, r.a, r.b),
                _ => format!("{:>6} {:<5} note {} {} {}", r.step, who, r.site, r.a, r.b),
            }
        })
        .collect()
}

fn to_case(prop: Prop, cfg_desc: serde_json::Value, out: RunOutcome, n_apps: usize) -> CaseOutcome {
    let mut names: Vec<String> = (0..n_apps).map(|i| format!("app{}", i)).collect();
    names.push("tx".into());
    names.push("rx".into());
    let name_refs: Vec<&str> = names.iter().map(|s| s.as_str()).collect();
    let violations = out
        .anomalies
        .iter()
        .map(|a| Violation {
            clause: a.clause.to_string(),
            detail: format!("{} (step {})", a.detail, a.step),
            signature: signature_of(a),
        })
        .collect::<Vec<_>>();
    let mut faults = std::collections::BTreeMap::new();
    for (k, v) in &out.stats.faults {
        faults.insert(k.to_string(), *v);
    }
    if out.timers_fired > 0 {
        faults.insert("timer_fire".into(), out.timers_fired);
    }
    if out.stats.ops_abandoned > 0 {
        faults.insert("abandon".into(), out.stats.ops_abandoned);
    }
    let mut probes = std::collections::BTreeMap::new();
    for (k, v) in &out.probes {
        probes.insert(k.to_string(), *v);
    }
    probes.insert("views_held".into(), out.stats.views_held);
    probes.insert("trims".into(), out.stats.trims);
    probes.insert("overlap>=2".into(), (out.stats.overlap_max >= 2) as u64);
    probes.insert("switch_inside_pdu_loop".into(), (out.inside_switches > 0) as u64);
    probes.insert("backpressure".into(), out.stats.ops_backpressure);
    let keep = if violations.is_empty() { 0 } else { 150 };
    let until = out.anomalies.first().map_or(u64::MAX, |a| a.step + 3);
    let _ = prop;
    CaseOutcome {
        violations,
        trace_hash: out.trace_hash,
        tape: out.tape,
        nontrivial: out.nontrivial,
        inconclusive: out.end == crate::enginef::RunEnd::Budget,
        sim_time_us: out.sim_time_us,
        steps: out.steps,
        faults,
        probes,
        abstract_states: out.abstract_states,
        describe: json!({
            "config": cfg_desc,
            "end": format!("{:?}", out.end),
            "steps": out.steps,
            "switches": out.switches,
            "frames_tx": out.stats.frames_tx,
            "frames_rx": out.stats.frames_rx,
            "requests": out.reqs_summary,
        }),
        trace: render_trace(&out.trace, &name_refs, keep, until),
    }
}

pub fn case(prop: Prop, thorough: bool, run_seed: u64, nonce: u64, replay: Option<Vec<u32>>) -> CaseOutcome {
    let mut tape = match replay {
        Some(v) => Tape::replay(v),
        None => Tape::search(run_seed),
    };
    let cfg = pduscen::draw_cfg(prop, &mut tape, thorough);
    let desc = json!({
        "slots": cfg.slots,
        "frame_len": cfg.frame_len,
        "tasks": cfg.tasks.iter().map(|t| t.iter().map(|o| format!("{:?}", o)).collect::<Vec<_>>()).collect::<Vec<_>>(),
        "waker_driven": cfg.waker_driven,
        "strategy": format!("{:?}", cfg.strategy),
        "pdu_timeout_us": cfg.pdu_timeout_us,
        "retry": format!("{:?}", cfg.retry),
        "faults": {"tx_error": cfg.tx_error, "tx_partial": cfg.tx_partial, "loss": cfg.loss, "dup": cfg.dup, "early": cfg.early, "lose_all_observed": cfg.lose_all_observed, "timer_fire": format!("{:?}", cfg.timer_fire)},
        "tx_priority": cfg.tx_priority,
    });
    let n_apps = cfg.tasks.len();
    let out = pduscen::run_scenario(cfg, tape, nonce);
    to_case(prop, desc, out, n_apps)
}

pub fn prop_of(id: &str) -> Option<Prop> {
    match id {
        "C01" => Some(Prop::C01),
        "C02" => Some(Prop::C02),
        "C03" => Some(Prop::C03),
        "C06" => Some(Prop::C06),
        "C20" => Some(Prop::C20),
        "C04" => Some(Prop::C04),
        _ => None,
    }
}

pub fn run_property(id: &str, tier: &str, seed: u64, workers: usize) -> i32 {
    let prop = prop_of(id).unwrap();
    let thorough = tier == "thorough";
    let mut pr = PropertyRun::new(id, tier, seed, workers);
    pr.real_components = vec![
        "ethercrab::pdu_loop (storage, frame_element/*, pdu_tx, pdu_rx) — real code with cfg(ethercrab_verif) events",
        "ethercrab::command builders, MainDevice::single_pdu — real code",
        "embassy_time::Timer — real code over the simulated driver",
    ];
    pr.stub_components = vec![
        "NIC transmit: the closure given to SendableFrame::send_blocking (scripted wire)",
        "NIC receive / EtherCAT segment: scripted responder feeding PduRx::receive_frame",
        "clock: embassy time driver implemented by the harness (virtual microseconds)",
        "executor/threads: fibres scheduled by the seeded scheduler",
    ];
    pr.assumptions = vec![
        "fibres execute sequentially consistently; memory-order weakening that does not change SC behaviour is visible only to the happens-before detector through the declared orderings".into(),
        "fewer than 256 datagram indices are allocated while a request is outstanding".into(),
    ];
    let f = move |rs: u64, nonce: u64, replay: Option<Vec<u32>>| case(prop, thorough, rs, nonce, replay);
    pr.replay_witnesses("pdu-scenario", &f);
    let (runs, wall) = match (id, thorough) {
        (_, false) => (2_000_000u64, 40u64),
        (_, true) => (20_000_000u64, 780u64),
    };
    let rule = "one run = one drawn scenario (slots, frame size, 1..3 task programs, fault rates, scheduler strategy) executed under one seeded schedule; non-trivial = at least two requests were outstanding at once and at least one pre-emption happened inside a PDU-loop function; distinct = distinct hash of the full event trace";
    pr.batch("pdu-scenario", runs, wall, rule, &f);
    pr.finish()
}
