mod c_conc;
mod c_dc;
mod c_eeprom;
mod c_init;
mod c_pd;
mod c_pdu;
mod c_sdo;
mod c_seq;
mod c_state;
mod c_wkc;
mod checks;
mod clock;
mod enginef;
mod engines;
mod esc;
mod netgen;
mod world;
mod fiber;
mod hb;
mod pduscen;
mod rng;
mod simlock;
mod runner;
mod storage;
mod tape;
mod wire;

use runner::CaseFn;

fn lookup(property: &str, check: &str, thorough: bool) -> Option<Box<CaseFn>> {
    match (property, check) {
        ("C01" | "C02" | "C03" | "C06", "pdu-scenario") | ("C20", "concurrent-tasks-subpoll") | ("C04", "wire-monitor-under-faults") => {
            let prop = c_pdu::prop_of(property)?;
            // The scenario generator's bounds depend on the tier the file was recorded in.
            Some(Box::new(move |rs, nonce, replay| c_pdu::case(prop, thorough, rs, nonce, replay)))
        }
        ("C12", "eeprom-reads") => Some(Box::new(c_eeprom::c12_case)),
        ("C13", "hostile-eeprom") => Some(Box::new(c_eeprom::c13_case)),
        ("C14", "alias-and-writes") => Some(Box::new(c_eeprom::c14_case)),
        ("C07", "pd-cycle") => Some(Box::new(c_pd::c07_case)),
        ("C08", "pd-mapping") => Some(Box::new(c_pd::c08_case)),
        ("C17", "dc-topology") => Some(Box::new(c_dc::c17_case)),
        ("C18", "dc-sync") => Some(Box::new(c_dc::c18_case)),
        ("C20", "concurrent-tasks") => Some(Box::new(c_conc::c20_case)),
        ("C15", "sdo-transfers") => Some(Box::new(c_sdo::c15_case)),
        ("C16", "hostile-mailbox") => Some(Box::new(c_sdo::c16_case)),
        ("C11", "wkc-group-transitions") => Some(Box::new(c_wkc::c11_group_case)),
        ("C11", "wkc-fault-enumeration") => Some(Box::new(c_wkc::c11_case)),
        ("C10", "group-transitions") => Some(Box::new(c_state::c10_case)),
        ("C09", "init") => Some(Box::new(c_init::case_clean)),
        ("C09", "init-dev-lag") => Some(Box::new(c_init::case_lag)),
        ("C04", "push-programs") => Some(Box::new(c_seq::c04_case)),
        ("C05", "hostile-frames") => Some(Box::new(c_seq::c05_case)),
        _ => None,
    }
}

fn main() {
    // Panics inside simulated code are caught and judged by the checks; keep stderr quiet.
    if std::env::var("VERIF_PANIC_MSG").is_err() {
        std::panic::set_hook(Box::new(|_| {}));
    }
    ethercrab::verif::set_hook(Some(enginef::hook));

    let args: Vec<String> = std::env::args().collect();
    if args.len() < 2 {
        eprintln!("usage: ecsim <property> [quick|thorough] | ecsim replay <file>");
        std::process::exit(2);
    }
    let seed: u64 = std::env::var("VERIF_SEED").ok().and_then(|s| s.parse().ok()).unwrap_or(1);
    let workers: usize = std::env::var("VERIF_WORKERS").ok().and_then(|s| s.parse().ok()).unwrap_or(16);
    let code = match args[1].as_str() {
        "replay" => checks::replay_file(&args[2], &lookup),
        // ecsim run-one <property> <check> <tier> <run_seed> <nonce>: one run, decisions drawn from the seed
        "run-one" if args.len() >= 7 => {
            let thorough = args[4] == "thorough";
            match lookup(&args[2], &args[3], thorough) {
                None => 2,
                Some(case) => {
                    let rs: u64 = args[5].parse().unwrap_or(0);
                    let nonce: u64 = args[6].parse().unwrap_or(0);
                    let out = case(rs, nonce, None);
                    match out.violations.first() {
                        Some(v) => {
                            println!("violation: {} [{}] {}", v.clause, v.signature, v.detail);
                            1
                        }
                        None => 0,
                    }
                }
            }
        }
        id @ ("C01" | "C02" | "C03" | "C06") => {
            let tier = args.get(2).map(|s| s.as_str()).unwrap_or("quick");
            c_pdu::run_property(id, tier, seed, workers)
        }
        id @ ("C12" | "C13" | "C14") => c_eeprom::run(id, args.get(2).map(|s| s.as_str()).unwrap_or("quick"), seed, workers),
        id @ ("C07" | "C08") => c_pd::run(id, args.get(2).map(|s| s.as_str()).unwrap_or("quick"), seed, workers),
        id @ ("C15" | "C16") => c_sdo::run(id, args.get(2).map(|s| s.as_str()).unwrap_or("quick"), seed, workers),
        "C20" => c_conc::run_c20(args.get(2).map(|s| s.as_str()).unwrap_or("quick"), seed, workers),
        id @ ("C17" | "C18") => c_dc::run(id, args.get(2).map(|s| s.as_str()).unwrap_or("quick"), seed, workers),
        "C11" => c_wkc::run_c11(args.get(2).map(|s| s.as_str()).unwrap_or("quick"), seed, workers),
        "C10" => c_state::run_c10(args.get(2).map(|s| s.as_str()).unwrap_or("quick"), seed, workers),
        "C09" => c_init::run_c09(args.get(2).map(|s| s.as_str()).unwrap_or("quick"), seed, workers),
        "C04" => c_seq::run_c04(args.get(2).map(|s| s.as_str()).unwrap_or("quick"), seed, workers),
        "C05" => c_seq::run_c05(args.get(2).map(|s| s.as_str()).unwrap_or("quick"), seed, workers),
        other => {
            eprintln!("unknown property {}", other);
            2
        }
    };
    std::process::exit(code);
}
