//! Batch runner: distributes seeded runs over worker threads, aggregates coverage, minimises and
//! reports violations, honours the committed known-findings file and writes the evidence file.

use crate::rng::mix;
use serde_json::{json, Value};
use std::collections::{BTreeMap, HashSet};
use std::sync::atomic::{AtomicBool, AtomicU64, Ordering};
use std::sync::Mutex;
use std::time::Instant;

#[derive(Clone, Debug)]
pub struct Violation {
    pub clause: String,
    pub detail: String,
    /// Identifies the failing schedule/input class (not the property).
    pub signature: String,
}

#[derive(Clone, Debug, Default)]
pub struct CaseOutcome {
    pub violations: Vec<Violation>,
    pub trace_hash: u64,
    pub tape: Vec<u32>,
    pub nontrivial: bool,
    pub inconclusive: bool,
    pub sim_time_us: u64,
    pub steps: u64,
    pub faults: BTreeMap<String, u64>,
    pub probes: BTreeMap<String, u64>,
    pub abstract_states: Vec<u64>,
    /// Human-readable description of the case (used for samples and replay files).
    pub describe: Value,
    /// Tail of the event trace, rendered.
    pub trace: Vec<String>,
}

/// How a case is executed: `(run_seed, nonce, replay_tape)`.
pub type CaseFn = dyn Fn(u64, u64, Option<Vec<u32>>) -> CaseOutcome + Sync;

pub struct BatchCfg<'a> {
    pub property: &'a str,
    pub check: &'a str,
    pub tier: &'a str,
    pub seed: u64,
    pub runs: u64,
    pub workers: usize,
    /// Stop the batch after this many wall-clock seconds (0 = no limit).
    pub max_wall_s: u64,
}

#[derive(Default)]
pub struct BatchResult {
    pub evaluations: u64,
    pub nontrivial: u64,
    pub distinct_nontrivial: u64,
    pub distinct_traces: u64,
    pub inconclusive: u64,
    pub sim_time_us: u64,
    pub steps: u64,
    pub faults: BTreeMap<String, u64>,
    pub probes: BTreeMap<String, u64>,
    pub abstract_states: u64,
    pub samples: Vec<Value>,
    pub violations: Vec<(u64, u64, CaseOutcome)>, // (run index, run seed, outcome)
    pub tainted: BTreeMap<String, u64>,
    pub wall_s: f64,
    /// Order-independent digest of (run index, trace hash, tape, steps, simulated time, first
    /// violation signature) over all runs: equal for two executions iff every run was identical.
    pub fingerprint: u64,
}

pub fn run_seed(seed: u64, property: &str, check: &str, run: u64) -> u64 {
    let mut h = 0u64;
    for b in property.bytes().chain(check.bytes()) {
        h = h.wrapping_mul(131).wrapping_add(b as u64);
    }
    mix(&[seed, h, run])
}

struct Agg {
    res: BatchResult,
    traces: HashSet<u64>,
    nt_traces: HashSet<u64>,
    states: HashSet<u64>,
    sigs_seen: HashSet<String>,
}

pub fn run_batch(cfg: &BatchCfg, case: &CaseFn, known_open: &HashSet<String>) -> BatchResult {
    let start = Instant::now();
    let agg = Mutex::new(Agg {
        res: BatchResult::default(),
        traces: HashSet::new(),
        nt_traces: HashSet::new(),
        states: HashSet::new(),
        sigs_seen: HashSet::new(),
    });
    let next = AtomicU64::new(0);
    let stop = AtomicBool::new(false);
    let workers = cfg.workers.max(1);
    // Crash breadcrumbs: when VERIF_CRUMB_DIR is set every worker records, before each run, which run
    // it is about to execute. If simulated code corrupts memory and the process dies, ./check reads
    // the crumbs and replays the candidates one by one.
    let crumb_dir = std::env::var("VERIF_CRUMB_DIR").ok();
    let worker_no = AtomicU64::new(0);
    std::thread::scope(|sc| {
        for _ in 0..workers {
            sc.spawn(|| {
                let mut local: Vec<(u64, u64, CaseOutcome)> = Vec::new();
                let my_no = worker_no.fetch_add(1, Ordering::Relaxed);
                let crumb = crumb_dir.as_ref().and_then(|d| std::fs::OpenOptions::new().create(true).write(true).truncate(true).open(format!("{}/crumb.{}", d, my_no)).ok());
                loop {
                    if stop.load(Ordering::Relaxed) {
                        break;
                    }
                    let i = next.fetch_add(1, Ordering::Relaxed);
                    if i >= cfg.runs {
                        break;
                    }
                    if cfg.max_wall_s > 0 && i % 64 == 0 && start.elapsed().as_secs() >= cfg.max_wall_s {
                        stop.store(true, Ordering::Relaxed);
                        break;
                    }
                    let rs = run_seed(cfg.seed, cfg.property, cfg.check, i);
                    let nonce = mix(&[rs, 0x6e6f6e6365]);
                    if let Some(f) = crumb.as_ref() {
                        use std::os::unix::fs::FileExt;
                        let line = format!("{} {} {} {} {} {} {:<40}\n", cfg.property, cfg.check, cfg.tier, i, rs, nonce, "");
                        let _ = f.write_all_at(line.as_bytes(), 0);
                    }
                    let out = case(rs, nonce, None);
                    local.push((i, rs, out));
                    if local.len() >= 256 {
                        flush(&agg, &mut local, known_open, &stop);
                    }
                }
                flush(&agg, &mut local, known_open, &stop);
            });
        }
    });
    let mut a = agg.into_inner().unwrap();
    a.res.distinct_traces = a.traces.len() as u64;
    a.res.distinct_nontrivial = a.nt_traces.len() as u64;
    a.res.abstract_states = a.states.len() as u64;
    a.res.wall_s = start.elapsed().as_secs_f64();
    // Deterministic order of reported violations regardless of worker interleaving.
    a.res.violations.sort_by_key(|v| v.0);
    a.res
}

fn flush(agg: &Mutex<Agg>, local: &mut Vec<(u64, u64, CaseOutcome)>, known_open: &HashSet<String>, stop: &AtomicBool) {
    let mut a = agg.lock().unwrap();
    for (i, rs, out) in local.drain(..) {
        a.res.evaluations += 1;
        a.res.sim_time_us += out.sim_time_us;
        a.res.steps += out.steps;
        if out.inconclusive {
            a.res.inconclusive += 1;
        }
        {
            let mut th = crate::rng::TraceHash::default();
            for v in &out.tape {
                th.add(*v as u64);
            }
            let mut sig = 0u64;
            if let Some(v) = out.violations.first() {
                for b in v.signature.bytes() {
                    sig = sig.wrapping_mul(131).wrapping_add(b as u64);
                }
            }
            a.res.fingerprint = a.res.fingerprint.wrapping_add(mix(&[i, out.trace_hash, th.0, out.steps, out.sim_time_us, sig, out.nontrivial as u64]));
        }
        a.traces.insert(out.trace_hash);
        if out.nontrivial {
            a.res.nontrivial += 1;
            a.nt_traces.insert(out.trace_hash);
        }
        for s in &out.abstract_states {
            a.states.insert(*s);
        }
        for (k, v) in &out.faults {
            *a.res.faults.entry(k.clone()).or_insert(0) += v;
        }
        for (k, v) in &out.probes {
            *a.res.probes.entry(k.clone()).or_insert(0) += v;
        }
        if a.res.samples.len() < 4 && out.nontrivial && out.violations.is_empty() {
            let mut d = out.describe.clone();
            if let Some(o) = d.as_object_mut() {
                o.insert("run".into(), json!(i));
                o.insert("run_seed".into(), json!(rs));
                o.insert("trace_hash".into(), json!(format!("{:016x}", out.trace_hash)));
                o.insert("tape_len".into(), json!(out.tape.len()));
            }
            a.res.samples.push(d);
        }
        if let Some(first) = out.violations.first() {
            // A run is classified by its first anomaly only.
            if known_open.contains(&first.signature) {
                *a.res.tainted.entry(first.signature.clone()).or_insert(0) += 1;
            } else if a.sigs_seen.insert(first.signature.clone()) {
                a.res.violations.push((i, rs, out));
                if a.res.violations.len() >= 6 {
                    stop.store(true, Ordering::Relaxed);
                }
            }
        }
    }
}

/// Delta-debugging minimisation of a failing tape: drop chunks, then zero values, then lower them,
/// as long as `still_fails` (same clause and signature) holds.
pub fn minimise(tape: Vec<u32>, still_fails: &dyn Fn(&[u32]) -> bool, budget: usize) -> Vec<u32> {
    let mut cur = tape;
    let mut evals = 0usize;
    let mut try_candidate = |cand: &[u32], evals: &mut usize| -> bool {
        if *evals >= budget {
            return false;
        }
        *evals += 1;
        still_fails(cand)
    };
    // Trailing zeros are implied.
    while cur.last() == Some(&0) {
        cur.pop();
    }
    // 1. remove chunks
    let mut chunk = (cur.len() / 2).max(1);
    while chunk >= 1 && evals < budget {
        let mut i = 0;
        let mut progressed = false;
        while i < cur.len() && evals < budget {
            let end = (i + chunk).min(cur.len());
            let mut cand = cur.clone();
            cand.drain(i..end);
            if try_candidate(&cand, &mut evals) {
                cur = cand;
                progressed = true;
            } else {
                i += chunk;
            }
        }
        if chunk == 1 && !progressed {
            break;
        }
        if !progressed {
            chunk /= 2;
        }
        if chunk == 0 {
            break;
        }
    }
    // 2. zero chunks of values, then single values, then lower them
    let mut chunk = (cur.len() / 2).max(1);
    while chunk >= 1 && evals < budget {
        let mut i = 0;
        while i < cur.len() && evals < budget {
            let end = (i + chunk).min(cur.len());
            if cur[i..end].iter().any(|v| *v != 0) {
                let mut cand = cur.clone();
                for v in &mut cand[i..end] {
                    *v = 0;
                }
                if try_candidate(&cand, &mut evals) {
                    cur = cand;
                }
            }
            i += chunk;
        }
        if chunk == 1 {
            break;
        }
        chunk /= 2;
    }
    for i in 0..cur.len() {
        if evals >= budget {
            break;
        }
        let mut v = cur[i];
        while v > 0 && evals < budget {
            let lower = v / 2;
            let mut cand = cur.clone();
            cand[i] = lower;
            if try_candidate(&cand, &mut evals) {
                cur = cand;
                v = lower;
            } else if v > 1 {
                let mut cand = cur.clone();
                cand[i] = v - 1;
                if try_candidate(&cand, &mut evals) {
                    cur = cand;
                    v -= 1;
                } else {
                    break;
                }
            } else {
                break;
            }
        }
    }
    while cur.last() == Some(&0) {
        cur.pop();
    }
    cur
}

#[derive(Clone, Debug)]
pub struct KnownFinding {
    pub status: String,
    pub property: String,
    pub signature: String,
    pub what: String,
    pub replay: Option<String>,
}

pub fn load_known_findings(path: &str) -> Vec<KnownFinding> {
    let Ok(text) = std::fs::read_to_string(path) else {
        return Vec::new();
    };
    let mut out = Vec::new();
    for line in text.lines() {
        let line = line.trim();
        if line.is_empty() || line.starts_with('#') {
            continue;
        }
        if let Ok(v) = serde_json::from_str::<Value>(line) {
            out.push(KnownFinding {
                status: v["status"].as_str().unwrap_or("").to_string(),
                property: v["property"].as_str().unwrap_or("").to_string(),
                signature: v["signature"].as_str().unwrap_or("").to_string(),
                what: v["what"].as_str().unwrap_or("").to_string(),
                replay: v["replay"].as_str().map(|s| s.to_string()),
            });
        }
    }
    out
}

pub fn sanitize(s: &str) -> String {
    s.chars()
        .map(|c| if c.is_ascii_alphanumeric() || c == '-' || c == '_' { c } else { '_' })
        .collect::<String>()
        .chars()
        .take(80)
        .collect()
}
