//! A reader-writer lock for the single-threaded simulation: instead of spinning forever on
//! contention (nobody else can run to release it) it panics, which the harness reports as a deadlock.

use lock_api::{GuardSend, RawRwLock};
use std::sync::atomic::{AtomicIsize, Ordering};

pub struct SimLock {
    /// -1 = exclusively locked, n > 0 = n shared holders.
    state: AtomicIsize,
}

unsafe impl RawRwLock for SimLock {
    #[allow(clippy::declare_interior_mutable_const)]
    const INIT: SimLock = SimLock { state: AtomicIsize::new(0) };
    type GuardMarker = GuardSend;

    fn lock_shared(&self) {
        if !self.try_lock_shared() {
            panic!("deadlock: the process image lock is already held exclusively; a spin lock would never return on this executor");
        }
    }

    fn try_lock_shared(&self) -> bool {
        let s = self.state.load(Ordering::SeqCst);
        if s < 0 {
            return false;
        }
        self.state.store(s + 1, Ordering::SeqCst);
        true
    }

    unsafe fn unlock_shared(&self) {
        self.state.fetch_sub(1, Ordering::SeqCst);
    }

    fn lock_exclusive(&self) {
        if !self.try_lock_exclusive() {
            panic!("deadlock: the process image lock is already held; a spin lock would never return on this executor");
        }
    }

    fn try_lock_exclusive(&self) -> bool {
        self.state.compare_exchange(0, -1, Ordering::SeqCst, Ordering::SeqCst).is_ok()
    }

    unsafe fn unlock_exclusive(&self) {
        self.state.store(0, Ordering::SeqCst);
    }
}
