//! C11: a device that did not answer is never mistaken for one that did. Fault enumeration: every
//! public data-returning entry point is run healthy once to count the datagrams the target device
//! services, then once per position with the device dropping out from that datagram on, once per
//! position with only that datagram unanswered, and with the working counter tampered.

use crate::c_init::{sim_error_violation, viol};
use crate::checks::PropertyRun;
use crate::engines::SimError;
use crate::esc::Segment;
use crate::netgen::{self, GenCfg};
use crate::rng::TraceHash;
use crate::runner::CaseOutcome;
use crate::tape::Tape;
use crate::world::{now_ns, World, WorldCfg};
use ethercrab::error::Error;
use ethercrab::{Command, SubDeviceGroup};
use serde_json::json;

fn tape_of(rs: u64, replay: Option<Vec<u32>>) -> Tape {
    match replay {
        Some(v) => Tape::replay(v),
        None => Tape::search(rs),
    }
}

/// Outcome of one operation, reduced to what the oracle compares.
#[derive(Clone, Debug, PartialEq, Eq)]
enum Outcome {
    Ok(Vec<u8>),
    Err(String),
    WorkingCounter { expected: u16, received: u16 },
}

fn outcome<T: AsRef<[u8]>>(r: Result<T, Error>) -> Outcome {
    match r {
        Ok(v) => Outcome::Ok(v.as_ref().to_vec()),
        Err(Error::WorkingCounter { expected, received }) => Outcome::WorkingCounter { expected, received },
        Err(e) => Outcome::Err(format!("{:?}", e)),
    }
}

struct Enumerated {
    positions: u64,
    dropouts: u64,
    skips: u64,
    tampers: u64,
}

/// Run `$op` (an expression producing a future with `Result<impl AsRef<[u8]>, Error>`) under every
/// fault position for device `$target`.
macro_rules! enumerate_op {
    ($w:expr, $out:expr, $stats:expr, $snap:expr, $target:expr, $name:expr, $single:expr, $op:expr) => {{
        let name: &str = $name;
        // Healthy reference.
        $w.sim.seg = $snap.clone();
        let base = $w.sim.seg.devices[$target].serviced_counter;
        let healthy = match $w.sim.block_on($op) {
            Err(e) => {
                $out.violations.push(sim_error_violation(name, &e));
                None
            }
            Ok(r) => Some(outcome(r)),
        };
        if let Some(healthy) = healthy {
            let m = $w.sim.seg.devices[$target].serviced_counter - base;
            if !matches!(healthy, Outcome::Ok(_)) {
                $out.violations.push(viol("healthy-operation-failed", format!("{} on a healthy segment returned {:?}", name, healthy)));
            } else {
                $stats.positions += m;
                // (a) the device drops out from datagram j on.
                for j in 0..m {
                    if !$out.violations.is_empty() {
                        break;
                    }
                    $w.sim.seg = $snap.clone();
                    $w.sim.seg.devices[$target].faults.dropout_from = Some(base + j);
                    $stats.dropouts += 1;
                    match $w.sim.block_on($op) {
                        Err(SimError::Panic(p)) => $out.violations.push(viol("panic", format!("{} panicked with the device silent from datagram {}: {}", name, j, p))),
                        Err(e) => $out.violations.push(sim_error_violation(&format!("{} with the device silent from datagram {} of {}", name, j, m), &e)),
                        Ok(r) => match outcome(r) {
                            Outcome::Ok(v) => {
                                let mut x = viol(
                                    "silent-device-accepted",
                                    format!("{}: the device stopped answering from datagram {} of {} yet the call returned Ok({:02x?})", name, j, m, v),
                                );
                                x.signature = format!("silent-device-accepted@{}", name);
                                $out.violations.push(x);
                            }
                            Outcome::WorkingCounter { expected, received } => {
                                if $single && (expected != 1 || received != 0) {
                                    $out.violations.push(viol("wrong-wkc-fields", format!("{}: WorkingCounter{{expected {}, received {}}}, the wire carried expected 1 / received 0", name, expected, received)));
                                }
                            }
                            Outcome::Err(e) => {
                                if $single {
                                    $out.violations.push(viol("wrong-error-kind", format!("{}: a single unanswered datagram must give the working counter error, got {}", name, e)));
                                }
                            }
                        },
                    }
                }
                // (b) only datagram j is unanswered: the call may fail, or succeed with the right data.
                for j in 0..m {
                    if !$out.violations.is_empty() {
                        break;
                    }
                    $w.sim.seg = $snap.clone();
                    $w.sim.seg.devices[$target].faults.skip_one = Some(base + j);
                    $stats.skips += 1;
                    match $w.sim.block_on($op) {
                        Err(SimError::Panic(p)) => $out.violations.push(viol("panic", format!("{} panicked with datagram {} unanswered: {}", name, j, p))),
                        Err(e) => $out.violations.push(sim_error_violation(&format!("{} with datagram {} of {} unanswered", name, j, m), &e)),
                        Ok(r) => {
                            let o = outcome(r);
                            if let Outcome::Ok(v) = &o {
                                if o != healthy {
                                    let mut x = viol(
                                        "unanswered-datagram-wrong-data",
                                        format!("{}: datagram {} of {} was not serviced by the device, yet the call returned Ok({:02x?}); the healthy result is {:?}", name, j, m, v, healthy),
                                    );
                                    x.signature = format!("unanswered-datagram-wrong-data@{}", name);
                                    $out.violations.push(x);
                                }
                            }
                        }
                    }
                }
                // (c) the wire alters the counter of everything this device services.
                for tamper in [0i32, 2, 3, -1] {
                    if !$out.violations.is_empty() {
                        break;
                    }
                    $w.sim.seg = $snap.clone();
                    $w.sim.seg.devices[$target].wkc_tamper = Some(tamper);
                    $stats.tampers += 1;
                    match $w.sim.block_on($op) {
                        Err(SimError::Panic(p)) => $out.violations.push(viol("panic", format!("{} panicked with the working counter tampered: {}", name, p))),
                        Err(e) => $out.violations.push(sim_error_violation(&format!("{} with working counter increment {}", name, tamper), &e)),
                        Ok(r) => match outcome(r) {
                            Outcome::Ok(v) => {
                                let mut x = viol("tampered-counter-accepted", format!("{}: every working counter came back as {} instead of 1 yet the call returned Ok({:02x?})", name, tamper as u16, v));
                                x.signature = format!("tampered-counter-accepted@{}", name);
                                $out.violations.push(x);
                            }
                            Outcome::WorkingCounter { expected, received } => {
                                if $single && (expected != 1 || received != tamper as u16) {
                                    $out.violations.push(viol("wrong-wkc-fields", format!("{}: WorkingCounter{{expected {}, received {}}}, the wire carried {}", name, expected, received, tamper as u16)));
                                }
                            }
                            Outcome::Err(_) => {}
                        },
                    }
                }
            }
        }
        $w.sim.seg = $snap.clone();
    }};
}

pub fn c11_case(rs: u64, _nonce: u64, replay: Option<Vec<u32>>) -> CaseOutcome {
    let mut t = tape_of(rs, replay);
    let mut out = CaseOutcome::default();
    let n = 2 + t.choose(3, "n_devices");
    let target = t.choose(n, "target");
    let cfg = GenCfg {
        mailbox_pct: 100,
        coe_pct: 100,
        pd_pct: 80,
        dc_pct: 30,
        mailbox_sizes: vec![64, 48, 128],
        ..GenCfg::default()
    };
    let (specs, seg) = netgen::gen_network(&mut t, &cfg, n);
    let wcfg = WorldCfg {
        static_sync_iterations: 0,
        state_transition_us: 2_000,
        mailbox_echo_us: 1_000,
        mailbox_response_us: 2_000,
        eeprom_us: 500,
        pdu_timeout_us: 500,
        ..WorldCfg::default()
    };
    let mut w = World::new(&wcfg, seg, t);
    w.sim.max_steps = 400_000;
    let md = w.md();
    let group: SubDeviceGroup<8, 256> = match w.sim.block_on(md.init_single_group::<8, 256>(now_ns)) {
        Ok(Ok(g)) => g,
        Ok(Err(e)) => {
            out.violations.push(viol("init-failed", format!("{:?}", e)));
            out.tape = w.sim.tape.consumed_values();
            return out;
        }
        Err(e) => {
            out.violations.push(sim_error_violation("init", &e));
            out.tape = w.sim.tape.consumed_values();
            return out;
        }
    };
    let snap: Segment = w.sim.seg.clone();
    let addr = 0x1000 + target as u16;
    let mut st = Enumerated { positions: 0, dropouts: 0, skips: 0, tampers: 0 };
    let sd = group.subdevice(md, target).expect("target");
    let which = w.sim.tape.choose(if crate::tape::gen() >= 2 { 4 } else { 3 }, "op_set");
    let reg: u16 = w.sim.tape.pick(&[0x0010u16, 0x0130, 0x0012, 0x0008], "register");

    // Single-datagram entry points.
    if which == 0 {
        enumerate_op!(w, out, st, snap, target, "fprd.receive::<u16>", true, async { Command::fprd(addr, reg).receive::<u16>(md).await.map(|v| v.to_le_bytes()) });
        enumerate_op!(w, out, st, snap, target, "fprd.receive_slice", true, async { Command::fprd(addr, reg).receive_slice(md, 4).await.map(|p| p.to_vec()) });
        enumerate_op!(w, out, st, snap, target, "fpwr.send_receive::<u16>", true, async { Command::fpwr(addr, 0x0f80).send_receive::<u16>(md, 0xbeefu16).await.map(|v| v.to_le_bytes()) });
        enumerate_op!(w, out, st, snap, target, "fpwr.send_receive_slice", true, async { Command::fpwr(addr, 0x0f80).send_receive_slice(md, [1u8, 2, 3, 4]).await.map(|p| p.to_vec()) });
        enumerate_op!(w, out, st, snap, target, "register_read::<u16>", true, async { sd.register_read::<u16>(reg).await.map(|v| v.to_le_bytes()) });
        enumerate_op!(w, out, st, snap, target, "register_write::<u16>", true, async { sd.register_write::<u16>(0x0f82u16, 0x1234).await.map(|v| v.to_le_bytes()) });
        // Expected counts other than one, against present and absent addresses.
        for k in 0u16..4 {
            w.sim.seg = snap.clone();
            let present = w.sim.block_on(async { Command::fprd(addr, reg).with_wkc(k).receive::<u16>(md).await });
            match present {
                Ok(Ok(_)) if k != 1 => out.violations.push(viol("expected-count-ignored", format!("fprd with_wkc({}) to a present device returned Ok although one device answered", k))),
                Ok(Err(Error::WorkingCounter { expected, received })) if k != 1 => {
                    if expected != k || received != 1 {
                        out.violations.push(viol("wrong-wkc-fields", format!("with_wkc({}): WorkingCounter{{expected {}, received {}}}, the wire carried 1", k, expected, received)));
                    }
                }
                Ok(Err(e)) if k == 1 => out.violations.push(viol("healthy-operation-failed", format!("fprd with_wkc(1) failed with {:?}", e))),
                Ok(Err(e)) if !matches!(e, Error::WorkingCounter { .. }) => out.violations.push(viol("wrong-error-kind", format!("with_wkc({}): {:?}", k, e))),
                Err(e) => out.violations.push(sim_error_violation("fprd", &e)),
                _ => {}
            }
            let absent = w.sim.block_on(async { Command::fprd(0x4000, reg).with_wkc(k).receive::<u16>(md).await });
            match absent {
                Ok(Ok(_)) if k != 0 => out.violations.push(viol("absent-device-accepted", format!("fprd with_wkc({}) to an absent address returned Ok", k))),
                Ok(Err(Error::WorkingCounter { expected, received })) if k != 0 => {
                    if expected != k || received != 0 {
                        out.violations.push(viol("wrong-wkc-fields", format!("absent address, with_wkc({}): WorkingCounter{{expected {}, received {}}}", k, expected, received)));
                    }
                }
                Ok(Err(e)) if k != 0 && !matches!(e, Error::WorkingCounter { .. }) => out.violations.push(viol("wrong-error-kind", format!("absent address with_wkc({}): {:?}", k, e))),
                Err(e) => out.violations.push(sim_error_violation("fprd", &e)),
                _ => {}
            }
            st.tampers += 2;
        }
        // Broadcast read expecting all devices.
        let nn = n as u16;
        enumerate_op!(w, out, st, snap, target, "brd.with_wkc(n).receive::<u16>", false, async { Command::brd(0x0130).with_wkc(nn).receive::<u16>(md).await.map(|v| v.to_le_bytes()) });
    } else if which == 1 {
        // Composite operations: status, EEPROM.
        enumerate_op!(w, out, st, snap, target, "status", false, async { sd.status().await.map(|(s, _c)| [u8::from(s)]) });
        let start = w.sim.tape.choose(0x60, "ee_start") as u16;
        let len = 2 + 2 * w.sim.tape.choose(8, "ee_len");
        enumerate_op!(w, out, st, snap, target, "eeprom_read_raw", false, async {
            let mut buf = vec![0u8; len];
            sd.eeprom_read_raw(md, start, &mut buf).await.map(|n| buf[..n].to_vec())
        });
        enumerate_op!(w, out, st, snap, target, "eeprom_read::<u32>", false, async { sd.eeprom_read::<u32>(md, start).await.map(|v| v.to_le_bytes()) });
        enumerate_op!(w, out, st, snap, target, "eeprom_size", false, async { sd.eeprom_size(md).await.map(|v| (v as u32).to_le_bytes()) });
    } else if which == 3 {
        // gen >= 2: auto-increment addressing, EEPROM writes, array write, SDO information services.
        let pos = target as u16;
        enumerate_op!(w, out, st, snap, target, "aprd.receive::<u16>", true, async { Command::aprd(pos, reg).receive::<u16>(md).await.map(|v| v.to_le_bytes()) });
        enumerate_op!(w, out, st, snap, target, "apwr.send_receive::<u16>", true, async { Command::apwr(pos, 0x0f84).send_receive::<u16>(md, 0x4321u16).await.map(|v| v.to_le_bytes()) });
        // FRMW: the addressed device answers the read, every *other* DC capable device takes the value
        // as a write and counts too, so the default expectation of one only fits a segment in
        // which no other device supports DC.
        let others_dc = specs.iter().enumerate().filter(|(i, s)| *i != target && s.dc_supported()).count();
        if others_dc == 0 {
            out.probes.insert("frmw_with_default_expectation".into(), 1);
            enumerate_op!(w, out, st, snap, target, "frmw.receive::<u16>", true, async { Command::frmw(addr, 0x0f86).receive::<u16>(md).await.map(|v| v.to_le_bytes()) });
            enumerate_op!(w, out, st, snap, target, "frmw.receive_slice", true, async { Command::frmw(addr, 0x0f86).receive_slice(md, 4).await.map(|p| p.to_vec()) });
        }
        enumerate_op!(w, out, st, snap, target, "fprd.receive::<[u8;6]>", true, async { Command::fprd(addr, 0x0f80).receive::<[u8; 6]>(md).await.map(|v| v.to_vec()) });
        let ee_word = 0x30 + w.sim.tape.choose(8, "ee_write_word") as u16;
        enumerate_op!(w, out, st, snap, target, "eeprom_write_dangerously::<u16>", false, async { sd.eeprom_write_dangerously(md, ee_word, 0xa55au16).await.map(|_| [0u8; 0]) });
        enumerate_op!(w, out, st, snap, target, "description", false, async { sd.description().await.map(|d| d.map(|s| s.as_bytes().to_vec()).unwrap_or_default()) });
        enumerate_op!(w, out, st, snap, target, "sdo_write_array(0x2000)", false, async { sd.sdo_write_array(0x2000, &[0x1111u16, 0x2222]).await.map(|_| [0u8; 0]) });
        enumerate_op!(w, out, st, snap, target, "sdo_info_object_quantities", false, async { sd.sdo_info_object_quantities().await.map(|q| format!("{:?}", q).into_bytes()) });
        enumerate_op!(w, out, st, snap, target, "sdo_info_object_description_list", false, async {
            sd.sdo_info_object_description_list(ethercrab::ObjectDescriptionListQuery::All).await.map(|q| format!("{:?}", q).into_bytes())
        });
    } else {
        // Mailbox / SDO.
        enumerate_op!(w, out, st, snap, target, "sdo_read::<u32>(0x1018:1)", false, async { sd.sdo_read::<u32>(0x1018, 1).await.map(|v| v.to_le_bytes()) });
        enumerate_op!(w, out, st, snap, target, "sdo_read::<u8>(0x1018:0)", false, async { sd.sdo_read::<u8>(0x1018, 0).await.map(|v| [v]) });
        enumerate_op!(w, out, st, snap, target, "sdo_write(0x2000:1)", false, async { sd.sdo_write(0x2000, 1, 0x55aau16).await.map(|_| [0u8; 0]) });
        enumerate_op!(w, out, st, snap, target, "sdo_read_array::<u32,4>(0x1018)", false, async {
            sd.sdo_read_array::<u32, 4>(0x1018).await.map(|v| v.iter().flat_map(|x| x.to_le_bytes()).collect::<Vec<u8>>())
        });
    }
    let mut th = TraceHash::default();
    th.add(n as u64);
    th.add(target as u64);
    th.add(which as u64);
    th.add(st.positions);
    for s in &specs {
        th.add(s.serial as u64);
    }
    out.trace_hash = th.0;
    out.tape = w.sim.tape.consumed_values();
    out.steps = st.dropouts + st.skips + st.tampers;
    out.sim_time_us = crate::clock::now();
    out.nontrivial = st.positions > 0;
    out.faults.insert("dev_dropout".into(), st.dropouts);
    out.faults.insert("single_datagram_unanswered".into(), st.skips);
    out.faults.insert("wkc_tamper".into(), st.tampers);
    out.probes.insert("fault_positions".into(), st.positions);
    let op_set = ["single-datagram entry points + expected counts 0..3", "status + EEPROM", "SDO", "auto-increment addressing, EEPROM write, array write, SDO information"][which];
    out.describe = json!({"devices": n, "target": target, "op_set": op_set, "fault_positions": st.positions, "runs": st.dropouts + st.skips + st.tampers});
    if !w.sim.seg.malformed.is_empty() && out.violations.is_empty() {
        out.violations.push(viol("malformed-frame", w.sim.seg.malformed[0].clone()));
    }
    drop(sd);
    drop(group);
    out
}

/// Group transitions with one member dropping out at every datagram position.
pub fn c11_group_case(rs: u64, _nonce: u64, replay: Option<Vec<u32>>) -> CaseOutcome {
    use crate::esc::ST_OP;
    let mut t = tape_of(rs, replay);
    let mut out = CaseOutcome::default();
    let n = 1 + t.choose(4, "n_devices");
    let target = t.choose(n, "target");
    let cfg = GenCfg {
        mailbox_pct: 50,
        coe_pct: 80,
        pd_pct: 80,
        dc_pct: 0,
        mailbox_sizes: vec![64, 48],
        contiguous_sms: true,
        ..GenCfg::default()
    };
    let specs: Vec<netgen::DevSpec> = (0..n).map(|i| netgen::gen_device(&mut t, &cfg, i)).collect();
    let to_op = t.flag(60, 100, "to_op");
    // gen >= 2: third variant, the non-waiting request from SAFE-OP (request_into_op), whose only
    // datagram per member is the state request itself.
    let nowait = crate::tape::gen() >= 2 && t.flag(25, 100, "request_into_op");
    let wcfg = WorldCfg {
        static_sync_iterations: 0,
        state_transition_us: 2_000,
        mailbox_echo_us: 1_000,
        mailbox_response_us: 2_000,
        eeprom_us: 500,
        pdu_timeout_us: 500,
        ..WorldCfg::default()
    };
    // One execution: init on a healthy segment, then the transition with the fault armed.
    let run = |fault: Option<(u8, u64)>, tape: Tape| -> (Result<Result<(), Error>, SimError>, u64, bool, Tape, Option<(u8, u16)>) {
        let devices: Vec<crate::esc::Device> = specs.iter().map(netgen::build_device).collect();
        let seg = Segment::chain(devices);
        let mut w = World::new(&wcfg, seg, tape);
        w.sim.max_steps = 400_000;
        let md = w.md();
        let group: SubDeviceGroup<8, 256> = match w.sim.block_on(md.init_single_group::<8, 256>(now_ns)) {
            Ok(Ok(g)) => g,
            Ok(Err(e)) => return (Ok(Err(e)), 0, false, Tape::replay(vec![]), None),
            Err(e) => return (Err(e), 0, false, Tape::replay(vec![]), None),
        };
        if nowait {
            // Healthy prefix: PRE-OP -> SAFE-OP, then the judged request.
            let safe = match w.sim.block_on(group.into_safe_op(md)) {
                Ok(Ok(g)) => g,
                Ok(Err(e)) => return (Ok(Err(e)), 0, false, Tape::replay(vec![]), None),
                Err(e) => return (Err(e), 0, false, Tape::replay(vec![]), None),
            };
            let base = w.sim.seg.devices[target].serviced_counter;
            match fault {
                Some((0, j)) => w.sim.seg.devices[target].faults.dropout_from = Some(base + j),
                Some((1, j)) => w.sim.seg.devices[target].faults.skip_one = Some(base + j),
                Some((_, v)) => w.sim.seg.devices[target].wkc_tamper = Some(v as i32),
                None => {}
            }
            let r = w.sim.block_on(safe.request_into_op(md)).map(|r| r.map(|_| ()));
            let m = w.sim.seg.devices[target].serviced_counter - base;
            // The request is not waited for: "all there" means every member at least took it.
            let all_there = w.sim.seg.devices.iter().all(|d| d.first_refused.is_none());
            let fr = w.sim.seg.devices[target].first_refused;
            let tape = std::mem::replace(&mut w.sim.tape, Tape::replay(vec![]));
            return (r, m, all_there, tape, fr);
        }
        let base = w.sim.seg.devices[target].serviced_counter;
        match fault {
            Some((0, j)) => w.sim.seg.devices[target].faults.dropout_from = Some(base + j),
            Some((1, j)) => w.sim.seg.devices[target].faults.skip_one = Some(base + j),
            Some((_, v)) => w.sim.seg.devices[target].wkc_tamper = Some(v as i32),
            None => {}
        }
        let r = if to_op { w.sim.block_on(group.into_op(md)).map(|r| r.map(|_| ())) } else { w.sim.block_on(group.into_safe_op(md)).map(|r| r.map(|_| ())) };
        let m = w.sim.seg.devices[target].serviced_counter - base;
        let want = if to_op { ST_OP } else { crate::esc::ST_SAFEOP };
        let all_there = w.sim.seg.devices.iter().all(|d| d.al_state == want && !d.al_error);
        let fr = w.sim.seg.devices[target].first_refused;
        let tape = std::mem::replace(&mut w.sim.tape, Tape::replay(vec![]));
        (r, m, all_there, tape, fr)
    };
    let name = if nowait { "request_into_op" } else if to_op { "into_op" } else { "into_safe_op" };
    let (healthy, m, _, mut tape, _) = run(None, t);
    let mut positions = 0u64;
    let mut runs = 0u64;
    match healthy {
        Err(e) => out.violations.push(sim_error_violation(name, &e)),
        Ok(Err(e)) => out.violations.push(viol("healthy-operation-failed", format!("{} on a healthy segment failed with {:?}", name, e))),
        Ok(Ok(())) => {
            positions = m;
            for j in 0..m {
                for kind in [0u8, 1] {
                    if !out.violations.is_empty() {
                        break;
                    }
                    runs += 1;
                    let (r, _, all_there, t2, first_refused) = run(Some((kind, j)), tape);
                    tape = t2;
                    // The state request itself (FPWR to AL control) is an access that hands the
                    // device's acknowledgement back: if it is the datagram that went unanswered the
                    // caller must get the working-counter error with both counts.
                    if first_refused == Some((crate::wire::CMD_FPWR, 0x0120)) {
                        *out.probes.entry("state_request_unanswered".into()).or_insert(0) += 1;
                        match &r {
                            Ok(Err(Error::WorkingCounter { expected: 1, received: 0 })) => {}
                            Err(_) => {}
                            other => {
                                let mut x = viol("state-request-unanswered-not-reported", format!("{}: member {}'s state request (FPWR 0x0120) was not serviced (fault {} at datagram {}); the call returned {:?} instead of WorkingCounter {{ expected: 1, received: 0 }}", name, target, if kind == 0 { "silent from" } else { "single datagram unanswered" }, j, other.as_ref().map(|x| x.as_ref().map(|_| "Ok"))));
                                x.signature = format!("state-request-unanswered-not-reported@{}", name);
                                out.violations.push(x);
                            }
                        }
                    }
                    match r {
                        Err(SimError::Panic(p)) => out.violations.push(viol("panic", format!("{} panicked with member {} {} datagram {}: {}", name, target, if kind == 0 { "silent from" } else { "not answering" }, j, p))),
                        Err(e) => out.violations.push(sim_error_violation(name, &e)),
                        Ok(Ok(())) => {
                            // Success is only acceptable if the segment really is in the claimed state
                            // (a single unanswered poll is harmless).
                            if kind == 0 || !all_there {
                                let mut x = viol("silent-device-accepted", format!("{}: member {} {} datagram {} of {} yet the transition returned Ok", name, target, if kind == 0 { "was silent from" } else { "did not answer" }, j, m));
                                x.signature = format!("silent-device-accepted@{}", name);
                                out.violations.push(x);
                            }
                        }
                        Ok(Err(_)) => {}
                    }
                }
            }
            for tamper in [0u64, 2, 3] {
                if !out.violations.is_empty() {
                    break;
                }
                runs += 1;
                let (r, _, _, t2, _) = run(Some((2, tamper)), tape);
                tape = t2;
                if let Ok(Ok(())) = r {
                    let mut x = viol("tampered-counter-accepted", format!("{}: every working counter of member {} came back as {} yet the transition returned Ok", name, target, tamper));
                    x.signature = format!("tampered-counter-accepted@{}", name);
                    out.violations.push(x);
                }
            }
        }
    }
    let mut th = TraceHash::default();
    th.add(n as u64);
    th.add(target as u64);
    th.add(to_op as u64);
    th.add(positions);
    for s in &specs {
        th.add(s.serial as u64);
    }
    out.trace_hash = th.0;
    out.tape = tape.consumed_values();
    out.steps = runs;
    out.nontrivial = positions > 0;
    out.faults.insert("dev_dropout".into(), runs / 2);
    out.faults.insert("single_datagram_unanswered".into(), runs / 2);
    out.probes.insert("fault_positions".into(), positions);
    out.describe = json!({"devices": n, "target": target, "transition": name, "fault_positions": positions, "runs": runs});
    out
}

pub fn run_c11(tier: &str, seed: u64, workers: usize) -> i32 {
    let thorough = tier == "thorough";
    let mut pr = PropertyRun::new("C11", tier, seed, workers);
    pr.level = "fault_enumeration".into();
    pr.real_components = vec!["ethercrab command builders, register access, status, EEPROM stack, CoE/SDO client — real code", "init, PDU loop — real code"];
    pr.stub_components = vec!["segment reference model with per-device fault positions (silent from datagram j, datagram j unanswered, working counter increment replaced)", "clock, executor, NIC"];
    pr.assumptions = vec![
        "fault positions are enumerated exhaustively per (configuration, entry point): every datagram the target device services in the healthy run".into(),
        "WrappedWrite::send is outside the quantifier; polling helpers that call ignore_wkc() may time out instead of reporting the counter".into(),
        "for 'only datagram j unanswered' the requirement is: an error, or Ok with exactly the healthy result".into(),
    ];
    let (runs, wall) = if thorough { (90_000u64, 600u64) } else { (1_500u64, 40u64) };
    pr.replay_witnesses("wkc-fault-enumeration", &c11_case);
    pr.batch("wkc-fault-enumeration", runs, wall, "one evaluation = one configuration (2..4 CoE devices, drawn target, one of three entry-point sets) with the fault positions of every entry point in the set enumerated exhaustively (evidence key faults_fired counts the individual fault runs); non-trivial = at least one fault position; distinct = hash of (configuration, target, entry-point set, positions)", &c11_case);
    pr.replay_witnesses("wkc-group-transitions", &c11_group_case);
    pr.batch("wkc-group-transitions", runs / 3, wall / 2, "one evaluation = 1..4 devices brought to PRE-OP, then into_safe_op or into_op repeated once per (member datagram position x {silent from there on, only that one unanswered}) and with tampered counters, each on a freshly initialised segment; success is only accepted if every device really is in the claimed state", &c11_group_case);
    pr.finish()
}
