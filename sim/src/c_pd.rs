//! C07 (one process-data cycle moves the whole image) and C08 (process data of one SubDevice reaches
//! that SubDevice and nothing else).

use crate::c_init::{sim_error_violation, viol, Groups};
use crate::checks::PropertyRun;
use crate::esc::{AlBehaviour, Segment, ST_OP};
use crate::netgen::{self, DevSpec, GenCfg};
use crate::rng::{mix, TraceHash};
use crate::runner::CaseOutcome;
use crate::tape::Tape;
use crate::wire;
use crate::world::{now_ns, World, WorldCfg};
use ethercrab::error::Error;
use ethercrab::subdevice_group::{DcConfiguration, SubDeviceGroupHandle};
use ethercrab::{DcSync, SubDevice, SubDeviceState};
use serde_json::json;
use std::time::Duration;

fn tape_of(rs: u64, replay: Option<Vec<u32>>) -> Tape {
    match replay {
        Some(v) => Tape::replay(v),
        None => Tape::search(rs),
    }
}

static OVERSAMPLING_A: [(u16, u16); 1] = [(0x1a00, 2)];
static OVERSAMPLING_B: [(u16, u16); 2] = [(0x1a00, 3), (0x1600, 2)];
// gen >= 2: PDOs other than the first one of their sync manager.
static OVERSAMPLING_C: [(u16, u16); 1] = [(0x1a01, 2)];
static OVERSAMPLING_D: [(u16, u16); 3] = [(0x1a01, 3), (0x1601, 2), (0x1a00, 2)];
static OVERSAMPLING_E: [(u16, u16); 2] = [(0x1602, 4), (0x1a02, 2)];

fn oversampling_of(table: &[(u16, u16)], pdo: u16) -> u32 {
    table.iter().find(|(p, _)| *p == pdo).map_or(1, |(_, m)| *m as u32)
}

/// Expected byte length of a process-data SM given the oversampling table the application set.
fn sm_bytes(sm: &netgen::PdSm, table: &[(u16, u16)]) -> usize {
    let bits: u32 = sm.pdos.iter().map(|p| p.bit_len() * oversampling_of(table, p.index)).sum();
    ((bits + 7) / 8) as usize
}

struct Expect {
    /// Per device: (input bytes, output bytes).
    io: Vec<(usize, usize)>,
}

fn expectations(specs: &[DevSpec], tables: &[&'static [(u16, u16)]]) -> Expect {
    Expect {
        io: specs
            .iter()
            .zip(tables.iter())
            .map(|(s, t)| {
                (
                    s.pd_sms.iter().filter(|m| !m.is_output).map(|m| sm_bytes(m, t)).sum(),
                    s.pd_sms.iter().filter(|m| m.is_output).map(|m| sm_bytes(m, t)).sum(),
                )
            })
            .collect(),
    }
}

#[derive(Clone, Copy, PartialEq, Eq, Debug)]
enum Variant {
    Plain,
    SyncSystemTime,
    Dc,
}

/// Independent greedy packer: how many frames does a cycle need?
fn frames_needed(frame_len: usize, pdi_len: usize, n_devices: usize, dc: bool) -> usize {
    let cap = frame_len - 16;
    let mut frames = 0;
    let mut left = pdi_len;
    let mut checks = n_devices;
    let mut first = true;
    loop {
        if left == 0 && checks == 0 && !(first && dc) {
            break;
        }
        let mut room = cap;
        if first && dc {
            room = room.saturating_sub(20);
        }
        if left > 0 && room > 12 {
            let n = (room - 12).min(left);
            left -= n;
            room -= 12 + n;
        }
        while checks > 0 && room >= 14 {
            checks -= 1;
            room -= 14;
        }
        frames += 1;
        first = false;
        if frames > 10_000 {
            break;
        }
    }
    frames
}

/// Three groups with the image capacities the caller declares for them.
#[derive(Default)]
pub struct GroupsP<const P0: usize, const P1: usize, const P2: usize> {
    pub g0: ethercrab::SubDeviceGroup<16, P0, crate::simlock::SimLock>,
    pub g1: ethercrab::SubDeviceGroup<16, P1, crate::simlock::SimLock>,
    pub g2: ethercrab::SubDeviceGroup<16, P2, crate::simlock::SimLock>,
}

#[allow(clippy::too_many_arguments)]
fn run_pd<const P0: usize, const P1: usize, const P2: usize>(prop: &str, mut t: Tape) -> CaseOutcome {
    let capacity = [P0, P1, P2];
    let mut out = CaseOutcome::default();
    let c08 = prop == "C08";
    let n = if c08 { 1 + t.choose(6, "n_devices") } else { t.choose(9, "n_devices") };
    let variant = if c08 { Variant::Plain } else { t.pick(&[Variant::Plain, Variant::SyncSystemTime, Variant::Dc], "variant") };
    // Quarantine knob for the two open C08 findings (see known_findings.jsonl): in a stated fraction
    // of runs the generator avoids the device features those findings need, so that the rest of the
    // property keeps being explored instead of most runs ending at a known finding. Oracles are the
    // same in both kinds of run.
    let restricted = c08 && t.flag(60, 100, "avoid_known_findings");
    let cfg = GenCfg {
        pd_pct: if c08 { 95 } else { 85 },
        max_pd_sms_per_dir: if c08 { 1 + t.choose(3, "max_sms") } else { 1 },
        max_pdos: if c08 { 4 } else { 3 },
        max_entries: if c08 { 4 } else { 6 },
        max_entry_bits: if c08 { 64 } else { 32 },
        contiguous_sms: !c08 || restricted || t.flag(50, 100, "contiguous"),
        fmmu_ex_pct: if c08 { 40 } else { 0 },
        mailbox_pct: if c08 { 60 } else { 40 },
        coe_pct: 70,
        dc_pct: if variant == Variant::Plain { 30 } else { 80 },
        tight_fmmus: c08 && !restricted && t.flag(50, 100, "tight_fmmus"),
        mailbox_sizes: vec![64, 48, 128, 32],
        ..GenCfg::default()
    };
    let (specs, mut seg) = netgen::gen_network(&mut t, &cfg, n);
    for d in seg.devices.iter_mut() {
        d.strict_config = true;
        d.al_behaviour.insert(ST_OP, AlBehaviour::Accept { polls: t.choose(3, "op_polls") as u32 });
    }
    // Oversampling tables set by the application (C08 only).
    let tables: Vec<&'static [(u16, u16)]> = (0..n)
        .map(|i| -> &'static [(u16, u16)] {
            // Oversampling multiplies a sync manager's length; the generated physical layout only has
            // room for that when the device has one sync manager per direction.
            let single = specs[i].pd_sms.iter().filter(|m| m.is_output).count() <= 1 && specs[i].pd_sms.iter().filter(|m| !m.is_output).count() <= 1;
            if c08 && single {
                match t.choose(if crate::tape::gen() >= 2 { 7 } else { 4 }, "oversampling") {
                    0 | 1 => &[],
                    2 => &OVERSAMPLING_A,
                    3 => &OVERSAMPLING_B,
                    4 => &OVERSAMPLING_C,
                    5 => &OVERSAMPLING_D,
                    _ => &OVERSAMPLING_E,
                }
            } else {
                &[]
            }
        })
        .collect();
    for (d, (s, tb)) in seg.devices.iter_mut().zip(specs.iter().zip(tables.iter())) {
        for sm in &s.pd_sms {
            d.expected_pd_sms.insert(sm.index, (sm.start, sm_bytes(sm, tb) as u16, sm.is_output));
        }
    }
    let exp = expectations(&specs, &tables);
    let n_groups = if c08 { 1 + t.choose(3, "n_groups") } else { 1 };
    let assign: Vec<u8> = (0..n).map(|_| t.choose(n_groups, "group_of") as u8).collect();
    // Frame size: from the smallest that carries one state check (+ the clock datagram) upwards. The
    // mailbox traffic of init needs larger frames, so small frames are only drawn without mailboxes.
    let any_mailbox = specs.iter().any(|s| s.mailbox.is_some());
    // Initialisation itself writes 16 byte blocks (FMMU blanking, port time reads): 44 bytes is the
    // smallest frame a whole session works with.
    let min_frame = if variant == Variant::Plain { 44 } else { 50 };
    let frame_len = if any_mailbox || c08 {
        t.pick(&[1100usize, 256, 192, 1514, 512], "frame_len")
    } else {
        let opts = [min_frame, min_frame + 1, min_frame + 13, min_frame + 14, 48, 58, 64, 72, 100, 128, 1100, 1514];
        let f = t.pick(&opts, "frame_len_small");
        f.max(min_frame).min(1514)
    };
    // The storage menu holds every size 28..=128 and a set of larger ones.
    let frame_len = if frame_len <= 128 { frame_len } else { *[129usize, 192, 256, 512, 1100, 1514].iter().min_by_key(|x| (**x as i64 - frame_len as i64).abs()).unwrap() };
    let wcfg = WorldCfg {
        frame_len,
        slots: t.pick(&[16usize, 8, 4], "slots"),
        static_sync_iterations: t.choose(3, "static_sync") as u32,
        ..WorldCfg::default()
    };
    let nonce = t.bits32("nonce") as u64;
    let mut w = World::new(&wcfg, seg, t);
    let md = w.md();
    let assign2 = assign.clone();
    let init = w.sim.block_on(md.init::<16, GroupsP<P0, P1, P2>>(now_ns, GroupsP::<P0, P1, P2>::default(), move |g: &GroupsP<P0, P1, P2>, sd: &SubDevice| {
        let i = (sd.configured_address().wrapping_sub(0x1000)) as usize;
        let h: &dyn SubDeviceGroupHandle = match assign2.get(i).copied().unwrap_or(0) {
            0 => &g.g0,
            1 => &g.g1,
            _ => &g.g2,
        };
        Ok(h)
    }));
    let mut th = TraceHash::default();
    th.add(n as u64);
    th.add(frame_len as u64);
    for e in &exp.io {
        th.add(e.0 as u64);
        th.add(e.1 as u64);
    }
    out.describe = json!({
        "devices": n, "variant": format!("{:?}", variant), "frame_len": frame_len, "groups": n_groups, "assignment": assign,
        "io_bytes": exp.io, "coe": specs.iter().map(|s| s.mailbox.as_ref().map_or(false, |m| m.coe)).collect::<Vec<_>>(),
        "pd_sms": specs.iter().map(|s| s.pd_sms.iter().map(|m| format!("SM{} {} @{:#06x} {}bit", m.index, if m.is_output { "out" } else { "in" }, m.start, m.bits())).collect::<Vec<_>>()).collect::<Vec<_>>(),
        "fmmu_counts": specs.iter().map(|s| s.fmmu_count).collect::<Vec<_>>(),
        "declared_image_capacity": capacity, "oversampling": tables.iter().map(|t| format!("{:x?}", t)).collect::<Vec<_>>(),
    });
    let finish = |mut out: CaseOutcome, w: &World, th: TraceHash| {
        out.trace_hash = th.0;
        out.tape = w.sim.tape.consumed_values();
        out.steps = w.sim.stats.steps;
        out.sim_time_us = crate::clock::now();
        if !w.sim.seg.malformed.is_empty() && out.violations.is_empty() {
            out.violations.push(viol("malformed-frame", w.sim.seg.malformed[0].clone()));
        }
        out
    };
    let mut groups = match init {
        Err(e) => {
            out.violations.push(sim_error_violation("init", &e));
            return finish(out, &w, th);
        }
        Ok(Err(e)) => {
            out.violations.push(viol("init-failed", format!("init failed with {:?}", e)));
            return finish(out, &w, th);
        }
        Ok(Ok(g)) => g,
    };
    // Application-side configuration in PRE-OP.
    macro_rules! app_config {
        ($g:expr) => {{
            for mut sd in $g.iter_mut(md) {
                let i = sd.configured_address().wrapping_sub(0x1000) as usize;
                if !tables[i].is_empty() {
                    sd.set_oversampling(tables[i]);
                }
                if variant == Variant::Dc {
                    sd.set_dc_sync(DcSync::Sync0);
                }
            }
        }};
    }
    app_config!(groups.g0);
    app_config!(groups.g1);
    app_config!(groups.g2);
    let GroupsP { g0, g1, g2 } = groups;
    let members = |gi: u8| -> Vec<usize> { (0..n).filter(|i| assign[*i].min(2) == gi).collect() };

    // Bring every group to OP (group 0 is the one observed for C07).
    macro_rules! to_op {
        ($g:expr, $gi:expr) => {{
            let mem = members($gi);
            let want: usize = mem.iter().map(|i| exp.io[*i].0 + exp.io[*i].1).sum();
            match w.sim.block_on($g.into_op(md)) {
                Err(e) => {
                    out.violations.push(sim_error_violation("into_op", &e));
                    None
                }
                Ok(Err(e)) => {
                    if want > capacity[$gi as usize] {
                        out.probes.insert("layout_exceeds_declared_capacity".into(), 1);
                        if !matches!(e, Error::PdiTooLong { .. }) {
                            out.violations.push(viol("pdi-too-long-error", format!("group {} needs {} bytes of {}: into_op failed with {:?}", $gi, want, capacity[$gi as usize], e)));
                        }
                        // The refused group is outside the property's quantifier ("after a group has
                        // been brought to SAFE-OP or OP"). Whatever its devices were programmed with
                        // before the refusal is cleared, as an application that carries on with the
                        // other groups would do by re-initialising them, so that it cannot colour
                        // what is observed about the groups that did reach OP.
                        for i in mem.iter() {
                            for k in 0..16 {
                                w.sim.seg.devices[*i].mem[0x0600 + 16 * k + 12] = 0;
                            }
                        }
                    } else {
                        let codes: Vec<String> = mem.iter().map(|i| format!("dev{} AL {} err {} code {:#06x}", i, w.sim.seg.devices[*i].al_state, w.sim.seg.devices[*i].al_error, w.sim.seg.devices[*i].al_code)).collect();
                        out.violations.push(viol("configuration-refused", format!("into_op of group {} failed with {:?}; {}", $gi, e, codes.join(", "))));
                    }
                    None
                }
                Ok(Ok(g)) => {
                    if want > capacity[$gi as usize] {
                        out.violations.push(viol("layout-beyond-capacity-accepted", format!("group {} needs {} bytes but declares an image capacity of {}: into_op succeeded", $gi, want, capacity[$gi as usize])));
                    }
                    Some(g)
                }
            }
        }};
    }
    let dc_conf = DcConfiguration {
        start_delay: Duration::from_micros(100),
        sync0_period: Duration::from_micros(1000),
        sync0_shift: Duration::from_micros(250),
    };
    let has_dc_ref = specs.iter().any(|s| s.dc_supported());
    if variant == Variant::Dc {
        if !has_dc_ref {
            out.nontrivial = false;
            return finish(out, &w, th);
        }
        // DC path for the single group.
        let g = match w.sim.block_on(g0.into_pre_op_pdi(md)) {
            Ok(Ok(g)) => g,
            Ok(Err(e)) => {
                out.violations.push(viol("configuration-refused", format!("into_pre_op_pdi failed with {:?}", e)));
                return finish(out, &w, th);
            }
            Err(e) => {
                out.violations.push(sim_error_violation("into_pre_op_pdi", &e));
                return finish(out, &w, th);
            }
        };
        let g = match w.sim.block_on(g.configure_dc_sync(md, dc_conf)) {
            Ok(Ok(g)) => g,
            Ok(Err(e)) => {
                out.violations.push(viol("dc-config-failed", format!("configure_dc_sync failed with {:?}", e)));
                return finish(out, &w, th);
            }
            Err(e) => {
                out.violations.push(sim_error_violation("configure_dc_sync", &e));
                return finish(out, &w, th);
            }
        };
        let g = match w.sim.block_on(g.into_op(md)) {
            Ok(Ok(g)) => g,
            Ok(Err(e)) => {
                out.violations.push(viol("configuration-refused", format!("into_op (DC) failed with {:?}", e)));
                return finish(out, &w, th);
            }
            Err(e) => {
                out.violations.push(sim_error_violation("into_op", &e));
                return finish(out, &w, th);
            }
        };
        // Cycles.
        let mem = members(0);
        let cycles = 2 + w.sim.tape.choose(4, "cycles");
        for c in 0..cycles {
            let pats = plant(&mut w, &specs, &tables, &mem, nonce, c as u64);
            write_outputs(&g, md, &pats);
            w.sim.seg.lrw_output_area_noise = if w.sim.tape.flag(1, 2, "output_area_noise") { Some(nonce ^ c as u64) } else { None };
            let mut deaf: Option<usize> = None;
            if crate::tape::gen() >= 2 && !mem.is_empty() && w.sim.tape.flag(20, 100, "member_deaf_to_state_check") {
                let i = mem[w.sim.tape.choose(mem.len(), "deaf_member")];
                w.sim.seg.devices[i].faults.deaf_to_fprd = Some(0x0130);
                deaf = Some(i);
                out.probes.insert("cycle_with_unanswered_state_check".into(), 1);
            }
            w.sim.seg.record = true;
            w.sim.seg.log.clear();
            let res = w.sim.block_on(g.tx_rx_dc(md));
            w.sim.seg.record = false;
            match res {
                Err(e) => out.violations.push(sim_error_violation("tx_rx_dc", &e)),
                Ok(Err(e)) => out.violations.push(viol("cycle-failed", format!("tx_rx_dc failed with {:?}", e))),
                Ok(Ok(r)) => {
                    let states: Vec<SubDeviceState> = r.subdevice_states.iter().copied().collect();
                    check_cycle(&mut out, &w, &specs, &exp, &mem, frame_len, &pats, &g, md, r.working_counter, &states, Some(r.extra.dc_system_time), true);
                    // Cycle arithmetic.
                    let period = 1_000_000u64;
                    let off = r.extra.dc_system_time % period;
                    if r.extra.cycle_start_offset != Duration::from_nanos(off) || r.extra.next_cycle_wait != Duration::from_nanos(period - off + 250_000) {
                        out.violations.push(viol("cycle-arithmetic", format!("time {}: offset {:?} wait {:?}", r.extra.dc_system_time, r.extra.cycle_start_offset, r.extra.next_cycle_wait)));
                    }
                }
            }
            if let Some(i) = deaf {
                w.sim.seg.devices[i].faults.deaf_to_fprd = None;
            }
            if !out.violations.is_empty() {
                break;
            }
        }
        out.nontrivial = exp.io.iter().map(|e| e.0 + e.1).sum::<usize>() > 0;
        out.probes.insert("cycles".into(), cycles as u64);
        out.probes.insert("variant_dc".into(), 1);
        return finish(out, &w, th);
    }

    // C08: the typestate also lets a PRE-OP group go to OP through configure_dc_sync() without an
    // explicit into_pre_op_pdi(); the layout clauses must hold on that route too.
    if c08 && n_groups == 1 && has_dc_ref && w.sim.tape.flag(1, 6, "dc_sync_directly_from_preop") {
        out.probes.insert("route_configure_dc_sync_from_preop".into(), 1);
        // Half of these runs use devices that do not verify their sync manager set-up on the way to
        // SAFE-OP (many simple ESC-only terminals do not), so that an unconfigured layout shows up as
        // what the property talks about - a group in OP with wrong windows - and not only as a refusal.
        if w.sim.tape.flag(1, 2, "lenient_devices") {
            for d in w.sim.seg.devices.iter_mut() {
                d.strict_config = false;
            }
        }
        let want0: usize = members(0).iter().map(|i| exp.io[*i].0 + exp.io[*i].1).sum();
        let g = match w.sim.block_on(g0.configure_dc_sync(md, dc_conf)) {
            Ok(Ok(g)) => {
                if want0 > capacity[0] {
                    let mut v = viol("layout-beyond-capacity-accepted", format!("PRE-OP group needing {} bytes with a declared image capacity of {}: configure_dc_sync succeeded", want0, capacity[0]));
                    v.signature = "layout-beyond-capacity-accepted+dc-sync-from-preop".into();
                    out.violations.push(v);
                    return finish(out, &w, th);
                }
                g
            }
            Ok(Err(e)) => {
                if want0 > capacity[0] {
                    out.probes.insert("layout_exceeds_declared_capacity".into(), 1);
                    if !matches!(e, Error::PdiTooLong { .. }) {
                        out.violations.push(viol("pdi-too-long-error", format!("group 0 needs {} bytes of {}: configure_dc_sync failed with {:?}", want0, capacity[0], e)));
                    }
                } else {
                    out.violations.push(viol("dc-config-failed", format!("configure_dc_sync failed with {:?}", e)));
                }
                return finish(out, &w, th);
            }
            Err(e) => {
                out.violations.push(sim_error_violation("configure_dc_sync", &e));
                return finish(out, &w, th);
            }
        };
        match w.sim.block_on(g.into_op(md)) {
            Ok(Ok(g)) => {
                structural(&mut out, &w, &specs, &exp, &members(0), &g, md, 0);
                // The route is part of the failing class only for the clause that depends on it.
                if let Some(v) = out.violations.first_mut() {
                    if v.clause == "window-length-wrong" {
                        v.signature = format!("{}+dc-sync-from-preop", v.signature);
                    }
                }
            }
            Ok(Err(e)) => {
                let mut v = viol("configuration-refused", format!("PRE-OP group -> configure_dc_sync -> into_op failed with {:?}", e));
                v.signature = "configuration-refused+dc-sync-from-preop".into();
                out.violations.push(v);
            }
            Err(e) => out.violations.push(sim_error_violation("into_op", &e)),
        }
        out.nontrivial = exp.io.iter().map(|e| e.0 + e.1).sum::<usize>() > 0;
        return finish(out, &w, th);
    }
    let og0 = to_op!(g0, 0);
    let og1 = if n_groups > 1 && out.violations.is_empty() { to_op!(g1, 1) } else { None };
    let og2 = if n_groups > 2 && out.violations.is_empty() { to_op!(g2, 2) } else { None };
    if !out.violations.is_empty() {
        return finish(out, &w, th);
    }
    let Some(g0) = og0 else {
        return finish(out, &w, th);
    };

    // Structural clauses (C08) on every group.
    if c08 {
        structural(&mut out, &w, &specs, &exp, &members(0), &g0, md, 0);
        if let Some(g) = og1.as_ref() {
            structural(&mut out, &w, &specs, &exp, &members(1), g, md, 1);
        }
        if let Some(g) = og2.as_ref() {
            structural(&mut out, &w, &specs, &exp, &members(2), g, md, 2);
        }
        let in_op: Vec<bool> = (0..n).map(|i| match assign[i].min(2) { 0 => true, 1 => og1.is_some(), _ => og2.is_some() }).collect();
        global_fmmu_disjointness(&mut out, &w, &in_op);
        if !out.violations.is_empty() {
            return finish(out, &w, th);
        }
    }

    // Cycles on group 0 (and, for C08, one on each other group afterwards).
    let mem = members(0);
    let cycles = 1 + w.sim.tape.choose(4, "cycles");
    for c in 0..cycles {
        let pats = plant(&mut w, &specs, &tables, &mem, nonce, c as u64);
        write_outputs(&g0, md, &pats);
        // Arbitrary device answers: the output area of the returned image need not echo what was sent.
        w.sim.seg.lrw_output_area_noise = if w.sim.tape.flag(1, 2, "output_area_noise") { Some(nonce ^ c as u64) } else { None };
        let before: Vec<Vec<u8>> = w.sim.seg.devices.iter().map(|d| d.mem.clone()).collect();
        // gen >= 2, C07: in some cycles one member leaves its state check unanswered (nothing else).
        let mut deaf: Option<usize> = None;
        if !c08 && crate::tape::gen() >= 2 && !mem.is_empty() && w.sim.tape.flag(20, 100, "member_deaf_to_state_check") {
            let i = mem[w.sim.tape.choose(mem.len(), "deaf_member")];
            w.sim.seg.devices[i].faults.deaf_to_fprd = Some(0x0130);
            deaf = Some(i);
            out.probes.insert("cycle_with_unanswered_state_check".into(), 1);
        }
        w.sim.seg.record = true;
        w.sim.seg.log.clear();
        let (res_wkc, res_states, res_time) = if variant == Variant::SyncSystemTime {
            match w.sim.block_on(g0.tx_rx_sync_system_time(md)) {
                Err(e) => {
                    out.violations.push(sim_error_violation("tx_rx_sync_system_time", &e));
                    break;
                }
                Ok(Err(e)) => {
                    out.violations.push(viol("cycle-failed", format!("tx_rx_sync_system_time failed with {:?}", e)));
                    break;
                }
                Ok(Ok(r)) => (r.working_counter, r.subdevice_states.iter().copied().collect::<Vec<_>>(), r.extra),
            }
        } else {
            match w.sim.block_on(g0.tx_rx(md)) {
                Err(e) => {
                    out.violations.push(sim_error_violation("tx_rx", &e));
                    break;
                }
                Ok(Err(e)) => {
                    out.violations.push(viol("cycle-failed", format!("tx_rx failed with {:?}", e)));
                    break;
                }
                Ok(Ok(r)) => (r.working_counter, r.subdevice_states.iter().copied().collect::<Vec<_>>(), None),
            }
        };
        w.sim.seg.record = false;
        let dc_expected = variant == Variant::SyncSystemTime && has_dc_ref;
        check_cycle(&mut out, &w, &specs, &exp, &mem, frame_len, &pats, &g0, md, res_wkc, &res_states, res_time, dc_expected);
        if variant == Variant::SyncSystemTime && !has_dc_ref && res_time.is_some() {
            out.violations.push(viol("system-time-without-reference", format!("a system time {:?} was reported although no device supports DC", res_time)));
        }
        if c08 {
            behavioural(&mut out, &w, &specs, &mem, &pats, &before);
        }
        if let Some(i) = deaf {
            w.sim.seg.devices[i].faults.deaf_to_fprd = None;
        }
        if !out.violations.is_empty() {
            break;
        }
    }
    out.nontrivial = mem.iter().map(|i| exp.io[*i].0 + exp.io[*i].1).sum::<usize>() > 0;
    out.probes.insert("cycles".into(), cycles as u64);
    if c08 {
        out.probes.insert(if restricted { "runs_restricted(avoiding known findings)".into() } else { "runs_unrestricted".into() }, 1);
    }
    out.probes.insert(format!("variant_{:?}", variant), 1);
    out.probes.insert("multi_sm_per_direction".into(), specs.iter().any(|s| s.pd_sms.iter().filter(|m| m.is_output).count() > 1 || s.pd_sms.iter().filter(|m| !m.is_output).count() > 1) as u64);
    out.probes.insert("multi_frame_cycle".into(), (frames_needed(frame_len, mem.iter().map(|i| exp.io[*i].0 + exp.io[*i].1).sum(), mem.len(), false) > 1) as u64);
    drop(og1);
    drop(og2);
    finish(out, &w, th)
}

/// Per-device patterns: (device index, input pattern, output pattern).
type Patterns = Vec<(usize, Vec<u8>, Vec<u8>)>;

fn pattern(nonce: u64, dev: usize, dir: u64, cycle: u64, n: usize) -> Vec<u8> {
    (0..n).map(|i| (mix(&[nonce, dev as u64, dir, cycle, (i / 8) as u64]) >> ((i % 8) * 8)) as u8 | 1).collect()
}

/// Plant a distinct input pattern in each member device's input SM memory and choose output patterns.
fn plant(w: &mut World, specs: &[DevSpec], tables: &[&'static [(u16, u16)]], members: &[usize], nonce: u64, cycle: u64) -> Patterns {
    let mut out = Vec::new();
    for &i in members {
        let s = &specs[i];
        let mut inp = Vec::new();
        for sm in s.pd_sms.iter().filter(|m| !m.is_output) {
            let n = sm_bytes(sm, tables[i]);
            let p = pattern(nonce, i, sm.index as u64, cycle, n);
            let a = sm.start as usize;
            w.sim.seg.devices[i].mem[a..a + n].copy_from_slice(&p);
            inp.extend_from_slice(&p);
        }
        let n_out: usize = s.pd_sms.iter().filter(|m| m.is_output).map(|m| sm_bytes(m, tables[i])).sum();
        out.push((i, inp, pattern(nonce, i, 99, cycle, n_out)));
    }
    out
}

fn write_outputs<const N: usize, const P: usize, S: ethercrab::subdevice_group::HasPdi, DC>(g: &ethercrab::SubDeviceGroup<N, P, crate::simlock::SimLock, S, DC>, md: &'static ethercrab::MainDevice<'static>, pats: &Patterns) {
    for sd in g.iter(md) {
        let i = sd.configured_address().wrapping_sub(0x1000) as usize;
        if let Some((_, _, o)) = pats.iter().find(|p| p.0 == i) {
            let mut guard = sd.outputs_raw_mut();
            let n = guard.len().min(o.len());
            guard[..n].copy_from_slice(&o[..n]);
        }
    }
}

#[allow(clippy::too_many_arguments)]
fn check_cycle<const N: usize, const P: usize, S: ethercrab::subdevice_group::HasPdi, DC>(
    out: &mut CaseOutcome,
    w: &World,
    specs: &[DevSpec],
    exp: &Expect,
    members: &[usize],
    frame_len: usize,
    pats: &Patterns,
    g: &ethercrab::SubDeviceGroup<N, P, crate::simlock::SimLock, S, DC>,
    md: &'static ethercrab::MainDevice<'static>,
    wkc: u16,
    states: &[SubDeviceState],
    time: Option<u64>,
    dc_expected: bool,
) {
    let log = &w.sim.seg.log;
    let in_len: usize = members.iter().map(|i| exp.io[*i].0).sum();
    let out_len: usize = members.iter().map(|i| exp.io[*i].1).sum();
    let pdi_len = in_len + out_len;
    // Frames respect the configured size; LRW datagrams tile the window.
    let mut lrws: Vec<(u32, usize, u16, Vec<u8>, Vec<u8>)> = Vec::new();
    let mut frmw = 0;
    let mut checks: Vec<(u16, Vec<u8>)> = Vec::new();
    for (fi, f) in log.iter().enumerate() {
        if f.len > frame_len {
            out.violations.push(viol("frame-too-long", format!("cycle frame {} has {} bytes, configured size {}", fi, f.len, frame_len)));
        }
        for (di, d) in f.datagrams.iter().enumerate() {
            match d.cmd {
                wire::CMD_LRW => lrws.push((u32::from_le_bytes(d.addr), d.len as usize, d.wkc, d.sent.clone(), d.returned.clone())),
                wire::CMD_FRMW => {
                    frmw += 1;
                    if fi != 0 || di != 0 {
                        out.violations.push(viol("clock-datagram-misplaced", format!("time distribution datagram is datagram {} of frame {}", di, fi)));
                    }
                    let ado = u16::from_le_bytes([d.addr[2], d.addr[3]]);
                    let adp = u16::from_le_bytes([d.addr[0], d.addr[1]]);
                    let reference = specs.iter().position(|s| s.dc_supported()).map(|i| 0x1000 + i as u16);
                    if ado != 0x0910 || Some(adp) != reference || d.len != 8 {
                        out.violations.push(viol("clock-datagram-wrong", format!("FRMW to {:#06x}:{:#06x} len {}, reference clock is {:?}", adp, ado, d.len, reference)));
                    }
                    if let Some(t) = time {
                        let got = u64::from_le_bytes(d.returned[..8].try_into().unwrap());
                        if got != t {
                            out.violations.push(viol("reported-time-wrong", format!("reference returned {}, cycle reported {}", got, t)));
                        }
                    }
                }
                wire::CMD_FPRD => checks.push((u16::from_le_bytes([d.addr[0], d.addr[1]]), d.returned.clone())),
                other => out.violations.push(viol("unexpected-cycle-datagram", format!("command {} in a process data cycle", other))),
            }
        }
    }
    if dc_expected && frmw != 1 {
        out.violations.push(viol("clock-datagram-count", format!("{} time distribution datagrams in the cycle, expected exactly one", frmw)));
    }
    if !dc_expected && frmw != 0 {
        out.violations.push(viol("clock-datagram-count", format!("{} time distribution datagrams in a cycle without DC", frmw)));
    }
    if !lrws.is_empty() || pdi_len > 0 {
        let start = lrws.first().map_or(0, |l| l.0);
        let mut pos = start;
        let mut total = 0;
        for l in &lrws {
            if l.0 != pos {
                out.violations.push(viol("image-not-tiled", format!("LRW at {:#010x} but the previous one ended at {:#010x}", l.0, pos)));
                break;
            }
            pos += l.1 as u32;
            total += l.1;
        }
        if total != pdi_len {
            out.violations.push(viol("image-not-covered", format!("LRW datagrams carry {} bytes, the group image has {} ({} in + {} out)", total, pdi_len, in_len, out_len)));
        }
        let sum: u32 = lrws.iter().map(|l| l.2 as u32).sum();
        if sum as u16 != wkc {
            out.violations.push(viol("wkc-sum-wrong", format!("reported working counter {}, LRW datagrams returned {:?}", wkc, lrws.iter().map(|l| l.2).collect::<Vec<_>>())));
        }
    }
    // Inputs == what the network returned; outputs == what was written (and sent).
    let sent_image: Vec<u8> = lrws.iter().flat_map(|l| l.3.clone()).collect();
    let returned_image: Vec<u8> = lrws.iter().flat_map(|l| l.4.clone()).collect();
    let mut members_sorted = Vec::new();
    for sd in g.iter(md) {
        let i = sd.configured_address().wrapping_sub(0x1000) as usize;
        members_sorted.push(i);
        let io = sd.io_raw();
        if let Some((_, inp, outp)) = pats.iter().find(|p| p.0 == i) {
            if io.inputs() != &inp[..] && out.violations.is_empty() {
                let fm: Vec<String> = w.sim.seg.devices.iter().enumerate().flat_map(|(di, d)| (0..d.fmmu_count as usize).filter_map(move |k| { let f = d.fmmu(k); if f.enabled { Some(format!("dev{} AL{} FMMU{} logical {:#x}+{} -> {:#06x} r{} w{}", di, d.al_state, k, f.logical, f.len, f.phys, f.read, f.write)) } else { None } })).collect();
                out.violations.push(viol("inputs-wrong", format!("device {}: inputs() shows {:02x?}, its input memory holds {:02x?}; LRW datagrams (logical start, returned data): {:x?}; enabled FMMUs: {:?}", i, io.inputs(), inp, lrws.iter().map(|l| (l.0, l.4.clone())).collect::<Vec<_>>(), fm)));
            }
            if io.outputs() != &outp[..] && out.violations.is_empty() {
                out.violations.push(viol("outputs-changed", format!("device {}: outputs() shows {:02x?} after the cycle, the application wrote {:02x?}", i, io.outputs(), outp)));
            }
        }
    }
    if returned_image.len() == pdi_len && sent_image.len() == pdi_len && out.violations.is_empty() {
        // The output part of what was sent equals what the application wrote, in group order.
        let mut want_out = Vec::new();
        for i in &members_sorted {
            if let Some((_, _, o)) = pats.iter().find(|p| p.0 == *i) {
                want_out.extend_from_slice(o);
            }
        }
        if sent_image[in_len..] != want_out[..] {
            out.violations.push(viol("outputs-not-sent", format!("the output part of the transmitted image is {:02x?}, the application wrote {:02x?}", &sent_image[in_len..], want_out)));
        }
    }
    // One state per SubDevice in group order, equal to what each reported.
    if states.len() != members_sorted.len() {
        out.violations.push(viol("state-list-length", format!("{} states reported for {} SubDevices", states.len(), members_sorted.len())));
    } else {
        for (k, i) in members_sorted.iter().enumerate() {
            // A member that left its state check unanswered is listed as "no state" (0), in place.
            let want = if w.sim.seg.devices[*i].faults.deaf_to_fprd == Some(0x0130) { 0 } else { w.sim.seg.devices[*i].al_state };
            let got: u8 = states[k].into();
            if got != want {
                out.violations.push(viol("state-list-wrong", format!("state list entry {} (device {}) is {:?}, the device reported {}", k, i, states[k], want)));
            }
        }
        let addrs: Vec<u16> = checks.iter().map(|c| c.0).collect();
        let want_addrs: Vec<u16> = members_sorted.iter().map(|i| 0x1000 + *i as u16).collect();
        if addrs != want_addrs {
            out.violations.push(viol("state-checks-wrong", format!("state checks went to {:04x?}, group members are {:04x?}", addrs, want_addrs)));
        }
    }
    // No more frames than an independent greedy packer needs.
    let need = frames_needed(frame_len, pdi_len, members_sorted.len(), dc_expected);
    if log.len() > need {
        out.violations.push(viol("too-many-frames", format!("the cycle used {} frames; {} suffice for {} image bytes and {} state checks in {} byte frames", log.len(), need, pdi_len, members_sorted.len(), frame_len)));
    }
    let _ = specs;
}

/// C08 structural clauses for one group.
#[allow(clippy::too_many_arguments)]
fn structural<const N: usize, const P: usize, S: ethercrab::subdevice_group::HasPdi, DC>(
    out: &mut CaseOutcome,
    w: &World,
    specs: &[DevSpec],
    exp: &Expect,
    members: &[usize],
    g: &ethercrab::SubDeviceGroup<N, P, crate::simlock::SimLock, S, DC>,
    md: &'static ethercrab::MainDevice<'static>,
    gi: usize,
) {
    // Window positions relative to the lowest address of any window in the group.
    let mut wins: Vec<(usize, usize, usize, usize, usize)> = Vec::new(); // dev, in_ptr, in_len, out_ptr, out_len
    for sd in g.iter(md) {
        let i = sd.configured_address().wrapping_sub(0x1000) as usize;
        let io = sd.io_raw();
        wins.push((i, io.inputs().as_ptr() as usize, io.inputs().len(), io.outputs().as_ptr() as usize, io.outputs().len()));
    }
    let base = wins.iter().flat_map(|w| [(w.1, w.2), (w.3, w.4)]).filter(|x| x.1 > 0).map(|x| x.0).min();
    for (i, _ip, il, _op, ol) in &wins {
        if (*il, *ol) != exp.io[*i] {
            out.violations.push(viol(
                "window-length-wrong",
                format!("group {} device {}: windows are {} input / {} output bytes; its PDO configuration requires {} / {}", gi, i, il, ol, exp.io[*i].0, exp.io[*i].1),
            ));
        }
    }
    if let Some(base) = base {
        let total: usize = members.iter().map(|i| exp.io[*i].0 + exp.io[*i].1).sum();
        let mut spans: Vec<(usize, usize, bool, usize)> = Vec::new();
        for (i, ip, il, op, ol) in &wins {
            if *il > 0 {
                spans.push((ip - base, ip - base + il, false, *i));
            }
            if *ol > 0 {
                spans.push((op - base, op - base + ol, true, *i));
            }
        }
        spans.sort();
        for p in spans.windows(2) {
            if p[0].1 > p[1].0 {
                out.violations.push(viol("windows-overlap", format!("group {}: window {:?} overlaps {:?}", gi, p[0], p[1])));
            }
            if p[0].2 && !p[1].2 {
                out.violations.push(viol("inputs-after-outputs", format!("group {}: an input window {:?} lies after an output window {:?}", gi, p[1], p[0])));
            }
        }
        if let Some(last) = spans.last() {
            if last.1 > total {
                out.violations.push(viol("window-outside-image", format!("group {}: window {:?} ends beyond the {} byte image", gi, last, total)));
            }
        }
    }
    // Registers in the devices.
    for &i in members {
        let d = &w.sim.seg.devices[i];
        for sm in &specs[i].pd_sms {
            let (start, len, is_out) = d.expected_pd_sms[&sm.index];
            let r = d.sm(sm.index as usize);
            if len > 0 && (r.start != start || r.len != len || !r.enabled() || r.master_writes() != is_out) {
                out.violations.push(viol("sm-register-wrong", format!("device {} SM{}: programmed start {:#06x} len {} enabled {} ; required start {:#06x} len {}", i, sm.index, r.start, r.len, r.enabled(), start, len)));
            }
            if len > 0 {
                // Exactly this physical range must be mapped by enabled FMMUs of the right direction.
                let mut covered = vec![false; len as usize];
                for k in 0..d.fmmu_count as usize {
                    let f = d.fmmu(k);
                    if !f.enabled || f.len == 0 || (is_out && !f.write) || (!is_out && !f.read) {
                        continue;
                    }
                    for b in 0..f.len as usize {
                        let pa = f.phys as usize + b;
                        if pa >= start as usize && pa < start as usize + len as usize {
                            covered[pa - start as usize] = true;
                        }
                    }
                }
                if covered.iter().any(|c| !c) {
                    let fm: Vec<String> = (0..d.fmmu_count as usize).map(|k| d.fmmu(k)).filter(|f| f.enabled).map(|f| format!("log {:#x}+{} -> phys {:#06x} r{} w{}", f.logical, f.len, f.phys, f.read as u8, f.write as u8)).collect();
                    let coe = specs[i].mailbox.as_ref().map_or(false, |m| m.coe);
                    let same_dir: Vec<&netgen::PdSm> = specs[i].pd_sms.iter().filter(|m| m.is_output == is_out).collect();
                    let contiguous = same_dir.windows(2).all(|p| p[0].start + d.expected_pd_sms[&p[0].index].1 == p[1].start);
                    let mut v = viol(
                        "fmmu-does-not-map-sm",
                        format!("device {} SM{} ({} bytes at {:#06x}, {}): {} of its bytes are mapped by no FMMU; enabled FMMUs: {:?} (device implements {} FMMUs, usage {:?}, FMMU_EX {:?}, configuration path {})", i, sm.index, len, start, if is_out { "outputs" } else { "inputs" }, covered.iter().filter(|c| !**c).count(), fm, d.fmmu_count, specs[i].fmmu_usage, specs[i].fmmu_ex, if coe { "CoE" } else { "EEPROM" }),
                    );
                    // Signature = configuration path and the feature of the device that path mishandles.
                    v.signature = if coe {
                        format!("fmmu-does-not-map-sm@coe{}", if same_dir.len() > 1 && !contiguous { "+sync-managers-not-adjacent" } else { "" })
                    } else if specs[i].fmmu_ex.is_some() {
                        "fmmu-does-not-map-sm@eeprom+fmmu_ex".to_string()
                    } else {
                        "fmmu-does-not-map-sm@eeprom+fmmu-chosen-by-sm-index".to_string()
                    };
                    out.violations.push(v);
                }
            }
        }
    }
}

/// `in_op[i]`: device `i` belongs to a group that was brought to OP. The property speaks about
/// groups that reached SAFE-OP/OP; what a group whose transition failed (e.g. with `PdiTooLong`)
/// left in its devices is outside its quantifier.
fn global_fmmu_disjointness(out: &mut CaseOutcome, w: &World, in_op: &[bool]) {
    let mut ranges: Vec<(u64, u64, usize, usize)> = Vec::new();
    for (i, d) in w.sim.seg.devices.iter().enumerate() {
        if !in_op.get(i).copied().unwrap_or(false) {
            continue;
        }
        for k in 0..d.fmmu_count as usize {
            let f = d.fmmu(k);
            if f.enabled && f.len > 0 {
                ranges.push((f.logical as u64, f.logical as u64 + f.len as u64, i, k));
            }
        }
    }
    ranges.sort();
    for p in ranges.windows(2) {
        if p[0].1 > p[1].0 {
            out.violations.push(viol("logical-ranges-overlap", format!("FMMU{} of device {} maps {:#x}..{:#x}, FMMU{} of device {} maps {:#x}..{:#x}", p[0].3, p[0].2, p[0].0, p[0].1, p[1].3, p[1].2, p[1].0, p[1].1)));
            return;
        }
    }
}

/// C08 behavioural clause: after one cycle each device's output memory holds its own pattern and no
/// other RAM byte of any device changed.
fn behavioural(out: &mut CaseOutcome, w: &World, specs: &[DevSpec], members: &[usize], pats: &Patterns, before: &[Vec<u8>]) {
    for (i, d) in w.sim.seg.devices.iter().enumerate() {
        let mut allowed = vec![false; 0x10000];
        for a in allowed.iter_mut().take(0x1000) {
            *a = true; // registers (status bytes, DC time, ...) legitimately change
        }
        if members.contains(&i) {
            let (_, _, outp) = pats.iter().find(|p| p.0 == i).unwrap();
            let mut pos = 0;
            for sm in specs[i].pd_sms.iter().filter(|m| m.is_output) {
                let (start, len, _) = d.expected_pd_sms[&sm.index];
                let (s, n) = (start as usize, len as usize);
                for a in allowed.iter_mut().skip(s).take(n) {
                    *a = true;
                }
                if d.mem[s..s + n] != outp[pos..pos + n] {
                    out.violations.push(viol(
                        "outputs-not-delivered",
                        format!("device {} SM{}: output memory holds {:02x?}, the application wrote {:02x?} for it", i, sm.index, &d.mem[s..s + n], &outp[pos..pos + n]),
                    ));
                    return;
                }
                pos += n;
            }
        }
        for a in 0x1000..0x10000 {
            if !allowed[a] && d.mem[a] != before[i][a] {
                out.violations.push(viol("foreign-memory-written", format!("device {}: RAM byte {:#06x} changed from {:#04x} to {:#04x} during a cycle although it is not one of its output windows", i, a, before[i][a], d.mem[a])));
                return;
            }
        }
    }
}

pub fn c07_case(rs: u64, _nonce: u64, replay: Option<Vec<u32>>) -> CaseOutcome {
    run_pd::<4096, 4096, 4096>("C07", tape_of(rs, replay))
}

pub fn c08_case(rs: u64, _nonce: u64, replay: Option<Vec<u32>>) -> CaseOutcome {
    let mut t = tape_of(rs, replay);
    // gen >= 2: in a quarter of the runs the groups declare small image capacities, so that layouts
    // around and beyond the capacity occur ("a layout that does not fit ... is an error").
    if crate::tape::gen() >= 2 && t.flag(25, 100, "small_capacities") {
        if t.flag(50, 100, "small_capacities_b") {
            run_pd::<8, 4096, 16>("C08", t)
        } else {
            run_pd::<24, 4, 4096>("C08", t)
        }
    } else {
        run_pd::<4096, 4096, 4096>("C08", t)
    }
}

pub fn run(id: &str, tier: &str, seed: u64, workers: usize) -> i32 {
    let thorough = tier == "thorough";
    let mut pr = PropertyRun::new(id, tier, seed, workers);
    pr.real_components = vec!["ethercrab init, PDO/SM/FMMU configuration (CoE and EEPROM paths), group transitions, tx_rx / tx_rx_sync_system_time / tx_rx_dc — real code", "PDU loop — real code"];
    pr.stub_components = vec!["EtherCAT segment reference model: FMMU logical mapping, sync managers, process data RAM, CoE object dictionary generated from the device description, AL state machine that refuses SAFE-OP on a sync manager configuration other than the device's own", "clock, executor, NIC"];
    if id == "C07" {
        pr.assumptions = vec!["fault-free wire and devices; MAX_PDI = 4096; frame sizes from the smallest that carries one state check (plus the 20 byte clock datagram for the DC variants); small frames only with devices that have no mailbox".into()];
        let (runs, wall) = if thorough { (1_500_000u64, 600u64) } else { (30_000u64, 35u64) };
        pr.replay_witnesses("pd-cycle", &c07_case);
        pr.batch("pd-cycle", runs, wall, "one run = 0..8 devices with drawn PDO sets brought to OP through the real init/into_op (DC variant through configure_dc_sync), a drawn frame size, 1..5 cycles of one of the three variants with fresh random outputs and inputs each; oracle over the recorded wire log: LRW tiling, frame sizes, the single leading FRMW, inputs/outputs, working counter sum, state list, frame count vs. an independent greedy packer; non-trivial = the group image is not empty", &c07_case);
    } else {
        pr.assumptions = vec!["devices implement exactly their FMMU count; a device refuses SAFE-OP unless its process data sync managers have the start and length its own description requires".into()];
        let (runs, wall) = if thorough { (1_200_000u64, 600u64) } else { (24_000u64, 35u64) };
        pr.replay_witnesses("pd-mapping", &c08_case);
        pr.batch("pd-mapping", runs, wall, "one run = 1..6 devices with random PDO sets (1..3 process data sync managers per direction, physically contiguous or not, CoE or EEPROM configuration path, FMMU_EX, oversampling tables, tight or generous FMMU counts) in 1..3 groups; structural oracle on windows, SM and FMMU registers, global logical disjointness; behavioural oracle: distinct patterns per device, one cycle, output RAM of each device holds its own pattern, no other RAM byte of any device changed, inputs() shows the device's own input RAM", &c08_case);
    }
    pr.finish()
}
