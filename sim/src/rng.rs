//! Small deterministic PRNG (SplitMix64 seeding xoshiro256**). No dependency, no global state.

#[derive(Clone, Debug)]
pub struct Rng {
    s: [u64; 4],
}

pub fn splitmix64(x: &mut u64) -> u64 {
    *x = x.wrapping_add(0x9E37_79B9_7F4A_7C15);
    let mut z = *x;
    z = (z ^ (z >> 30)).wrapping_mul(0xBF58_476D_1CE4_E5B9);
    z = (z ^ (z >> 27)).wrapping_mul(0x94D0_49BB_1331_11EB);
    z ^ (z >> 31)
}

/// Mix several integers into one 64 bit value (used to derive per-run seeds and nonces).
pub fn mix(parts: &[u64]) -> u64 {
    let mut h = 0x243F_6A88_85A3_08D3u64;
    for p in parts {
        h ^= *p;
        let mut x = h;
        h = splitmix64(&mut x) ^ x.rotate_left(17);
    }
    h
}

impl Rng {
    pub fn new(seed: u64) -> Self {
        let mut x = seed;
        let s = [
            splitmix64(&mut x),
            splitmix64(&mut x),
            splitmix64(&mut x),
            splitmix64(&mut x),
        ];
        Self { s }
    }

    pub fn next_u64(&mut self) -> u64 {
        let result = self.s[1].wrapping_mul(5).rotate_left(7).wrapping_mul(9);
        let t = self.s[1] << 17;
        self.s[2] ^= self.s[0];
        self.s[3] ^= self.s[1];
        self.s[1] ^= self.s[2];
        self.s[0] ^= self.s[3];
        self.s[2] ^= t;
        self.s[3] = self.s[3].rotate_left(45);
        result
    }

    /// Uniform in `0..n` (n > 0).
    pub fn below(&mut self, n: u64) -> u64 {
        debug_assert!(n > 0);
        // Multiply-shift; bias is irrelevant for our purposes.
        ((self.next_u64() as u128 * n as u128) >> 64) as u64
    }
}

/// FNV-1a style running hash used for trace hashes (deterministic, order sensitive).
#[derive(Clone, Copy, Debug)]
pub struct TraceHash(pub u64);

impl Default for TraceHash {
    fn default() -> Self {
        TraceHash(0xcbf2_9ce4_8422_2325)
    }
}

impl TraceHash {
    #[inline]
    pub fn add(&mut self, v: u64) {
        let mut h = self.0;
        for b in v.to_le_bytes() {
            h ^= b as u64;
            h = h.wrapping_mul(0x0000_0100_0000_01B3);
        }
        self.0 = h;
    }

    pub fn add_bytes(&mut self, bytes: &[u8]) {
        let mut h = self.0;
        for b in bytes {
            h ^= *b as u64;
            h = h.wrapping_mul(0x0000_0100_0000_01B3);
        }
        self.0 = h;
    }
}
