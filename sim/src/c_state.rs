//! C10: a group's typestate never claims a state its SubDevices are not in; the per-cycle state list
//! and its summaries say exactly what the devices reported.

use crate::c_init::{sim_error_violation, viol, Groups};
use crate::checks::PropertyRun;
use crate::esc::{AlBehaviour, ST_INIT, ST_OP, ST_PREOP, ST_SAFEOP};
use crate::netgen::{self, GenCfg};
use crate::rng::TraceHash;
use crate::runner::CaseOutcome;
use crate::tape::Tape;
use crate::world::{now_ns, World, WorldCfg};
use ethercrab::error::Error;
use ethercrab::subdevice_group::SubDeviceGroupHandle;
use ethercrab::{SubDevice, SubDeviceState};
use serde_json::json;

fn tape_of(rs: u64, replay: Option<Vec<u32>>) -> Tape {
    match replay {
        Some(v) => Tape::replay(v),
        None => Tape::search(rs),
    }
}

#[derive(Clone, Copy, Debug, PartialEq, Eq)]
enum Op {
    IntoSafeOp,
    IntoOp,
    RequestIntoOp,
    IntoInit,
    OpThenSafeOp,
    SafeOpThenPreOp,
}

fn state_code(s: SubDeviceState) -> u8 {
    s.into()
}

pub fn c10_case(rs: u64, _nonce: u64, replay: Option<Vec<u32>>) -> CaseOutcome {
    let mut t = tape_of(rs, replay);
    let mut out = CaseOutcome::default();
    let n = 1 + t.choose(16, "n_devices");
    let small_frames = t.flag(40, 100, "small_frames");
    let cfg = GenCfg {
        mailbox_pct: if small_frames { 0 } else { 40 },
        pd_pct: 70,
        dc_pct: 20,
        mailbox_sizes: vec![64, 48, 32],
        ..GenCfg::default()
    };
    let (specs, mut seg) = netgen::gen_network(&mut t, &cfg, n);
    let n_groups = 1 + t.choose(3, "n_groups");
    let assign: Vec<u8> = (0..n).map(|_| t.choose(n_groups, "group_of") as u8).collect();
    let gi = assign[t.choose(n, "observed_member")].min(2);
    let members: Vec<usize> = (0..n).filter(|i| assign[*i].min(2) == gi).collect();
    let op = t.pick(&[Op::IntoSafeOp, Op::IntoOp, Op::RequestIntoOp, Op::IntoInit, Op::OpThenSafeOp, Op::SafeOpThenPreOp, Op::IntoOp], "op");
    // The state the faults apply to: the last transition's target.
    let (path, target): (Vec<u8>, u8) = match op {
        Op::IntoSafeOp => (vec![ST_SAFEOP], ST_SAFEOP),
        Op::IntoOp => (vec![ST_SAFEOP, ST_OP], ST_OP),
        Op::RequestIntoOp => (vec![ST_SAFEOP, ST_OP], ST_OP),
        Op::IntoInit => (vec![ST_INIT], ST_INIT),
        Op::OpThenSafeOp => (vec![ST_SAFEOP, ST_OP, ST_SAFEOP], ST_SAFEOP),
        Op::SafeOpThenPreOp => (vec![ST_SAFEOP, ST_PREOP], ST_PREOP),
    };
    // Per-member behaviour for the faulted state.
    let faulted_state = if t.flag(30, 100, "fault_intermediate") && path.len() > 1 { path[0] } else { target };
    let mut behaviours: Vec<(usize, AlBehaviour)> = Vec::new();
    let mut bad = 0;
    let mut fallbacks = 0;
    for &m in &members {
        let b = match t.choose_biased(6, 55, 100, "behaviour") {
            0 => AlBehaviour::Accept { polls: 0 },
            1 | 2 => AlBehaviour::Accept { polls: 1 + t.choose(5, "polls") as u32 },
            3 => {
                bad += 1;
                AlBehaviour::Refuse { code: t.pick(&[0x0011u16, 0x001d, 0x001e, 0x0016, 0x0024], "code") }
            }
            4 => {
                bad += 1;
                AlBehaviour::Stall
            }
            _ => {
                fallbacks += 1;
                AlBehaviour::FallBack {
                    polls: t.choose(3, "fb_polls") as u32,
                    after: t.choose(6, "fb_after") as u32,
                    to: if faulted_state == ST_OP { ST_SAFEOP } else { ST_PREOP },
                    code: 0x001b,
                }
            }
        };
        behaviours.push((m, b));
    }
    let _ = &mut seg;
    let state_transition_us = t.pick(&[3_000u64, 1_000, 10_000], "state_transition");
    let frame_len = if small_frames { t.pick(&[44usize, 58, 72, 100, 60], "frame_len") } else { t.pick(&[1100usize, 256, 1514], "frame_len_big") };
    let wcfg = WorldCfg {
        frame_len,
        state_transition_us,
        static_sync_iterations: 0,
        ..WorldCfg::default()
    };
    let mut w = World::new(&wcfg, seg, t);
    let md = w.md();
    let assign2 = assign.clone();
    let init = w.sim.block_on(md.init::<16, Groups<16>>(now_ns, Groups::<16>::default(), move |g: &Groups<16>, sd: &SubDevice| {
        let i = (sd.configured_address().wrapping_sub(0x1000)) as usize;
        let h: &dyn SubDeviceGroupHandle = match assign2.get(i).copied().unwrap_or(0) {
            0 => &g.g0,
            1 => &g.g1,
            _ => &g.g2,
        };
        Ok(h)
    }));
    let mut th = TraceHash::default();
    th.add(n as u64);
    th.add(op as u64);
    th.add(frame_len as u64);
    for (m, b) in &behaviours {
        th.add(*m as u64);
        th.add(match b {
            AlBehaviour::Accept { polls } => *polls as u64,
            AlBehaviour::Refuse { code } => 100 + *code as u64,
            AlBehaviour::Stall => 1000,
            AlBehaviour::FallBack { after, .. } => 2000 + *after as u64,
        });
    }
    out.describe = json!({"devices": n, "groups": n_groups, "assignment": assign, "observed_group": gi, "op": format!("{:?}", op), "faulted_state": faulted_state, "behaviours": behaviours.iter().map(|(m, b)| format!("dev{}: {:?}", m, b)).collect::<Vec<_>>(), "frame_len": frame_len, "state_transition_us": state_transition_us});
    let finish = |mut out: CaseOutcome, w: &World, th: TraceHash| {
        out.trace_hash = th.0;
        out.tape = w.sim.tape.consumed_values();
        out.steps = w.sim.stats.steps;
        out.sim_time_us = crate::clock::now();
        if !w.sim.seg.malformed.is_empty() && out.violations.is_empty() {
            out.violations.push(viol("malformed-frame", w.sim.seg.malformed[0].clone()));
        }
        out
    };
    let groups = match init {
        Err(e) => {
            out.violations.push(sim_error_violation("init", &e));
            return finish(out, &w, th);
        }
        Ok(Err(e)) => {
            out.violations.push(viol("init-failed", format!("{:?}", e)));
            return finish(out, &w, th);
        }
        Ok(Ok(g)) => g,
    };
    let Groups { g0, g1, g2 } = groups;
    // Arm the behaviours and clear the logs.
    for (m, b) in &behaviours {
        w.sim.seg.devices[*m].al_behaviour.insert(faulted_state, b.clone());
    }
    for d in w.sim.seg.devices.iter_mut() {
        d.stats.al_control_writes.clear();
        d.stats.al_status_log.clear();
    }
    // gen >= 2: the response of one status-poll frame of the judged operation is lost on the wire.
    if crate::tape::gen() >= 2 && w.sim.tape.flag(25, 100, "lose_one_status_frame") {
        let k = w.sim.tape.choose(4, "lost_status_frame") as u32;
        w.sim.lose_response = Some((crate::wire::CMD_FPRD, 0x0130, k));
    }
    let t0 = crate::clock::now();
    let healthy = bad == 0 && fallbacks == 0;
    out.nontrivial = members.len() >= 1 && (!healthy || members.len() >= 2);
    if bad > 0 {
        out.faults.insert("dev_refuse_or_stall".into(), bad);
    }
    if fallbacks > 0 {
        out.faults.insert("dev_fallback".into(), fallbacks);
    }
    if behaviours.iter().any(|(_, b)| matches!(b, AlBehaviour::Accept { polls } if *polls > 0)) {
        out.faults.insert("dev_lag".into(), 1);
    }
    out.probes.insert("status_frames_needed>1".into(), ((members.len() * 14 + 16) > frame_len) as u64);

    // Judge the result of the (possibly composite) operation.
    let judge = |out: &mut CaseOutcome, w: &World, res: Result<(), Error>, reached: u8, waits: bool| {
        let elapsed = crate::clock::now() - t0;
        let last_reported = |i: usize| w.sim.seg.devices[i].stats.al_status_log.last().map(|x| x.1);
        match res {
            Ok(()) => {
                if waits {
                    for &m in &members {
                        match last_reported(m) {
                            Some(v) if (v & 0x0f) as u8 == reached => {}
                            other => {
                                out.violations.push(viol(
                                    "ok-without-state",
                                    format!("{:?} returned Ok (typestate now claims AL state {}) but device {} last reported {:?} (its AL state is {}, error {})", op, reached, m, other, w.sim.seg.devices[m].al_state, w.sim.seg.devices[m].al_error),
                                ));
                                break;
                            }
                        }
                    }
                    if bad > 0 && faulted_state == reached {
                        out.violations.push(viol("ok-despite-refusal", format!("{:?} returned Ok although {} member(s) refuse or stall the transition to state {}", op, bad, faulted_state)));
                    }
                }
            }
            Err(e) => {
                if w.sim.stats.frames_lost > 0 {
                    out.faults.insert("loss".into(), w.sim.stats.frames_lost);
                }
                if healthy && w.sim.stats.frames_lost == 0 {
                    out.violations.push(viol("healthy-transition-failed", format!("{:?} on obedient devices failed with {:?} after {} us", op, e, elapsed)));
                }
            }
        }
        // Error within the transition timeout (+ the requests and one status round, each bounded by a PDU timeout on a lossless wire).
        let transitions = path.len() as u64;
        // PRE-OP -> SAFE-OP is preceded by the PDO/SM/FMMU configuration of every member (SDO and
        // EEPROM traffic), which is not part of the transition timeout.
        let configures = matches!(op, Op::IntoSafeOp | Op::IntoOp | Op::RequestIntoOp | Op::OpThenSafeOp | Op::SafeOpThenPreOp);
        // a lost response costs its requester one PDU timeout
        let bound = transitions * (state_transition_us + 2_000 + 50 * members.len() as u64) + if configures { 30_000 * members.len() as u64 } else { 0 } + w.sim.stats.frames_lost * 2_500;
        if elapsed > bound {
            out.violations.push(viol("transition-timeout-exceeded", format!("{:?} took {} us; bound {} us ({} transition(s) of {} us)", op, elapsed, bound, transitions, state_transition_us)));
        }
        // State requests reached exactly the members.
        for (i, d) in w.sim.seg.devices.iter().enumerate() {
            let writes: Vec<u16> = d.stats.al_control_writes.iter().map(|x| x.1 & 0x0f).collect();
            if members.contains(&i) {
                if writes.is_empty() && res.is_ok() {
                    out.violations.push(viol("member-not-requested", format!("{:?}: member device {} received no AL control write", op, i)));
                }
            } else if !writes.is_empty() {
                out.violations.push(viol("non-member-requested", format!("{:?} of group {}: device {} (group {}) received AL control writes {:?}", op, gi, i, assign[i], writes)));
            }
        }
    };

    macro_rules! run_on {
        ($g:expr) => {{
            let g = $g;
            match op {
                Op::IntoSafeOp => match w.sim.block_on(g.into_safe_op(md)) {
                    Err(e) => out.violations.push(sim_error_violation("into_safe_op", &e)),
                    Ok(r) => judge(&mut out, &w, r.map(|_| ()), ST_SAFEOP, true),
                },
                Op::IntoInit => match w.sim.block_on(g.into_init(md)) {
                    Err(e) => out.violations.push(sim_error_violation("into_init", &e)),
                    Ok(r) => judge(&mut out, &w, r.map(|_| ()), ST_INIT, true),
                },
                Op::RequestIntoOp => match w.sim.block_on(g.into_pre_op_pdi(md)) {
                    Err(e) => out.violations.push(sim_error_violation("into_pre_op_pdi", &e)),
                    // a status read of the configuration phase may have been the lost frame
                    Ok(Err(_)) if w.sim.stats.frames_lost > 0 => {}
                    Ok(Err(e)) => out.violations.push(viol("healthy-transition-failed", format!("into_pre_op_pdi failed with {:?}", e))),
                    Ok(Ok(g)) => match w.sim.block_on(g.request_into_op(md)) {
                        Err(e) => out.violations.push(sim_error_violation("request_into_op", &e)),
                        Ok(r) => judge(&mut out, &w, r.map(|_| ()), ST_OP, false),
                    },
                },
                Op::IntoOp => match w.sim.block_on(g.into_op(md)) {
                    Err(e) => out.violations.push(sim_error_violation("into_op", &e)),
                    Ok(Err(e)) => judge(&mut out, &w, Err(e), ST_OP, true),
                    Ok(Ok(g)) => {
                        judge(&mut out, &w, Ok(()), ST_OP, true);
                        if out.violations.is_empty() {
                            summaries(&mut out, &mut w, &g, md, &members);
                        }
                    }
                },
                Op::OpThenSafeOp => match w.sim.block_on(g.into_op(md)) {
                    Err(e) => out.violations.push(sim_error_violation("into_op", &e)),
                    Ok(Err(e)) => judge(&mut out, &w, Err(e), ST_OP, true),
                    Ok(Ok(g)) => match w.sim.block_on(g.into_safe_op(md)) {
                        Err(e) => out.violations.push(sim_error_violation("into_safe_op", &e)),
                        Ok(r) => judge(&mut out, &w, r.map(|_| ()), ST_SAFEOP, true),
                    },
                },
                Op::SafeOpThenPreOp => match w.sim.block_on(g.into_safe_op(md)) {
                    Err(e) => out.violations.push(sim_error_violation("into_safe_op", &e)),
                    Ok(Err(e)) => judge(&mut out, &w, Err(e), ST_SAFEOP, true),
                    Ok(Ok(g)) => match w.sim.block_on(g.into_pre_op(md)) {
                        Err(e) => out.violations.push(sim_error_violation("into_pre_op", &e)),
                        Ok(r) => judge(&mut out, &w, r.map(|_| ()), ST_PREOP, true),
                    },
                },
            }
        }};
    }
    match gi {
        0 => run_on!(g0),
        1 => run_on!(g1),
        _ => run_on!(g2),
    }
    let _ = specs;
    finish(out, &w, th)
}

/// The per-cycle state list and its summaries against what the devices report.
fn summaries<const N: usize, const P: usize>(
    out: &mut CaseOutcome,
    w: &mut World,
    g: &ethercrab::SubDeviceGroup<N, P, crate::simlock::SimLock, ethercrab::subdevice_group::Op>,
    md: &'static ethercrab::MainDevice<'static>,
    members: &[usize],
) {
    let rounds = 1 + w.sim.tape.choose(4, "summary_rounds");
    let order: Vec<usize> = g.iter(md).map(|sd| sd.configured_address().wrapping_sub(0x1000) as usize).collect();
    for _ in 0..rounds {
        // Script what each member reports: mostly valid states, sometimes a device that vanished
        // (answers nothing: its state check comes back as zeros).
        let mut reported: Vec<u8> = Vec::new();
        for &i in &order {
            let d = &mut w.sim.seg.devices[i];
            d.faults.dropout_from = None;
            let v = match w.sim.tape.choose_biased(7, 55, 100, "reported_state") {
                0 => ST_OP,
                1 => ST_SAFEOP,
                2 => ST_PREOP,
                3 => ST_INIT,
                4 => 3, // BOOT
                5 => {
                    d.faults.dropout_from = Some(0);
                    d.serviced_counter = 0;
                    0
                }
                _ => ST_OP,
            };
            if v != 0 {
                d.force_state(v, false, 0);
            } else {
                d.force_state(ST_OP, false, 0);
            }
            reported.push(v);
        }
        let res = w.sim.block_on(g.tx_rx(md));
        for &i in &order {
            w.sim.seg.devices[i].faults.dropout_from = None;
        }
        let r = match res {
            Err(e) => {
                out.violations.push(sim_error_violation("tx_rx", &e));
                return;
            }
            Ok(Err(_)) => continue, // a vanished device may legitimately fail the cycle
            Ok(Ok(r)) => r,
        };
        let got: Vec<u8> = r.subdevice_states.iter().map(|s| state_code(*s)).collect();
        *out.probes.entry("summary_rounds".into()).or_insert(0) += 1;
        if reported.contains(&0) {
            *out.probes.entry("summary_round_with_silent_device".into()).or_insert(0) += 1;
        }
        if got != reported {
            out.violations.push(viol("state-list-wrong", format!("devices reported {:?}, the state list says {:?}", reported, got)));
            return;
        }
        let all = |s: u8| reported.iter().all(|x| *x == s);
        if r.all_op() != all(ST_OP) {
            out.violations.push(viol("summary-all-op-wrong", format!("devices reported {:?}: all_op() = {}", reported, r.all_op())));
            return;
        }
        for (s, code) in [(SubDeviceState::Init, ST_INIT), (SubDeviceState::PreOp, ST_PREOP), (SubDeviceState::SafeOp, ST_SAFEOP), (SubDeviceState::Op, ST_OP)] {
            if r.is_in_state(s) != all(code) {
                out.violations.push(viol("summary-is-in-state-wrong", format!("devices reported {:?}: is_in_state({:?}) = {}", reported, s, r.is_in_state(s))));
                return;
            }
        }
        let single = r.group_in_single_state();
        let valid = |x: u8| matches!(x, 1 | 2 | 4 | 8);
        if let Some(s) = single {
            let c = state_code(s);
            if valid(c) && !all(c) {
                out.violations.push(viol("summary-single-state-wrong", format!("devices reported {:?}: group_in_single_state() = {:?}", reported, single)));
                return;
            }
        } else if reported.iter().all(|x| valid(*x)) && reported.windows(2).all(|p| p[0] == p[1]) {
            out.violations.push(viol("summary-single-state-wrong", format!("devices all reported {:?} yet group_in_single_state() = None", reported[0])));
            return;
        }
    }
    let _ = members;
}

pub fn run_c10(tier: &str, seed: u64, workers: usize) -> i32 {
    let thorough = tier == "thorough";
    let mut pr = PropertyRun::new("C10", tier, seed, workers);
    pr.real_components = vec!["ethercrab group transitions (transition_to, wait_for_state/is_state, request_subdevice_state_nowait), tx_rx state checks, TxRxResponse summaries — real code", "init, PDU loop — real code"];
    pr.stub_components = vec!["AL state machine of each simulated ESC with scripted behaviour per requested state (accept after k polls, refuse with status code, stall, fall back later)", "clock (state transition timeout measured in simulated time), executor, NIC"];
    pr.assumptions = vec![
        "a refusing device keeps its old state and sets the error bit; a device never reports the requested state and the error bit at once (the statement's two sentences disagree about that case)".into(),
        "elapsed-time bound per transition: state_transition + 2 ms + 50 us per member (requests and one status round on a lossless wire)".into(),
        "summaries are compared for AL states INIT/PRE-OP/SAFE-OP/OP; BOOT and undefined values are documented as ambiguous in the bit-set representation and only constrain the summaries one way".into(),
    ];
    let (runs, wall) = if thorough { (2_000_000u64, 600u64) } else { (28_000u64, 35u64) };
    pr.replay_witnesses("group-transitions", &c10_case);
    pr.batch("group-transitions", runs, wall, "one run = 1..16 devices in 1..3 groups, one of six transition sequences on one group with a drawn behaviour per member for the faulted state, frame sizes small enough that the status round needs several frames; after a successful into_op, 1..4 cycles with scripted reported states incl. silent devices; non-trivial = a faulty member or at least two members; distinct = hash of (devices, operation, frame size, behaviours)", &c10_case);
    pr.finish()
}
