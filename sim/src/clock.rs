//! Virtual time. This module *is* the embassy time driver of the process: every
//! `embassy_time::Timer` inside ethercrab (which is what `timer_factory::Timer` is in the `no_std`
//! build) reads the thread-local simulated clock below.

use std::cell::RefCell;
use std::collections::BTreeMap;
use std::task::Waker;

pub struct ClockState {
    pub now: u64,
    seq: u64,
    /// (deadline, sequence) -> waker.
    timers: BTreeMap<(u64, u64), Waker>,
    /// Statistics
    pub timers_armed: u64,
    pub timers_fired: u64,
}

thread_local! {
    static CLOCK: RefCell<ClockState> = RefCell::new(ClockState { now: 0, seq: 0, timers: BTreeMap::new(), timers_armed: 0, timers_fired: 0 });
}

struct SimDriver;

impl embassy_time_driver::Driver for SimDriver {
    fn now(&self) -> u64 {
        CLOCK.with(|c| c.borrow().now)
    }

    fn schedule_wake(&self, at: u64, waker: &Waker) {
        CLOCK.with(|c| {
            let mut c = c.borrow_mut();
            c.seq += 1;
            let seq = c.seq;
            c.timers_armed += 1;
            c.timers.insert((at, seq), waker.clone());
        })
    }
}

embassy_time_driver::time_driver_impl!(static DRIVER: SimDriver = SimDriver);

/// Reset the clock of this thread for a new run.
pub fn reset() {
    // Take the old wakers out before dropping them: dropping a waker may run arbitrary code.
    let old = CLOCK.with(|c| {
        let mut c = c.borrow_mut();
        c.now = 0;
        c.seq = 0;
        c.timers_armed = 0;
        c.timers_fired = 0;
        std::mem::take(&mut c.timers)
    });
    drop(old);
}

pub fn now() -> u64 {
    CLOCK.with(|c| c.borrow().now)
}

/// Earliest armed deadline, if any.
pub fn next_deadline() -> Option<u64> {
    CLOCK.with(|c| c.borrow().timers.keys().next().map(|k| k.0))
}

pub fn armed() -> usize {
    CLOCK.with(|c| c.borrow().timers.len())
}

/// Move the clock to `t` (never backwards) and wake every timer that is due, in (deadline, seq)
/// order. Returns the number of wakers fired.
pub fn advance_to(t: u64) -> usize {
    let due: Vec<Waker> = CLOCK.with(|c| {
        let mut c = c.borrow_mut();
        if t > c.now {
            c.now = t;
        }
        let now = c.now;
        let mut due = Vec::new();
        while let Some(e) = c.timers.first_entry() {
            if e.key().0 <= now {
                due.push(e.remove());
            } else {
                break;
            }
        }
        c.timers_fired += due.len() as u64;
        due
    });
    let n = due.len();
    for w in due {
        w.wake();
    }
    n
}

/// Advance by `d` microseconds.
pub fn advance_by(d: u64) -> usize {
    let t = now().saturating_add(d);
    advance_to(t)
}

/// Jump to the next armed deadline, firing it. Returns false if no timer is armed.
pub fn jump_to_next_deadline() -> bool {
    match next_deadline() {
        Some(t) => {
            advance_to(t.max(now()));
            true
        }
        None => false,
    }
}

pub fn stats() -> (u64, u64) {
    CLOCK.with(|c| {
        let c = c.borrow();
        (c.timers_armed, c.timers_fired)
    })
}
