//! Random but well-formed device descriptions, their EEPROM images, object dictionaries and the
//! simulated devices built from them — plus what a correct MainDevice must conclude about each.

use crate::esc::coe::CoeServer;
use crate::esc::sii::{self, GenOpts, Image, MailboxDesc, PdLayout, PdoDesc, PdoEntryDesc};
use crate::esc::{Device, Segment};
use crate::tape::Tape;

#[derive(Clone, Debug)]
pub struct MbxSpec {
    pub write_start: u16,
    pub write_len: u16,
    pub read_start: u16,
    pub read_len: u16,
    pub coe: bool,
    pub complete_access: bool,
}

#[derive(Clone, Debug)]
pub struct PdSm {
    pub index: u8,
    pub is_output: bool,
    pub start: u16,
    pub pdos: Vec<PdoDesc>,
}

impl PdSm {
    pub fn bits(&self) -> u32 {
        self.pdos.iter().map(|p| p.bit_len()).sum()
    }
    pub fn bytes(&self) -> u16 {
        ((self.bits() + 7) / 8) as u16
    }
}

#[derive(Clone, Debug)]
pub struct DevSpec {
    pub vendor: u32,
    pub product: u32,
    pub revision: u32,
    pub serial: u32,
    pub alias: u16,
    /// Raw bytes of the order/name string in the EEPROM, if the device has one.
    pub name_raw: Option<Vec<u8>>,
    pub mailbox: Option<MbxSpec>,
    pub pd_sms: Vec<PdSm>,
    pub fmmu_usage: Vec<u8>,
    pub fmmu_ex: Option<Vec<[u8; 3]>>,
    pub support_flags: u16,
    pub read8: bool,
    pub fmmu_count: u8,
    pub sm_count: u8,
    pub prev_station_addr: u16,
    pub size_kbit: usize,
    pub image: Image,
    pub eeprom: Vec<u8>,
}

impl DevSpec {
    /// The name a MainDevice should report: the visible form of the order string, or the fallback
    /// built from the identity.
    pub fn expected_name(&self) -> String {
        match &self.name_raw {
            Some(raw) => raw.iter().filter(|c| **c != 0).map(|c| if c.is_ascii() { *c as char } else { '?' }).collect(),
            None => format!("manu. {:#010x}, device {:#010x}, serial {:#010x}", self.vendor, self.product, self.serial),
        }
    }

    pub fn input_bytes(&self) -> usize {
        self.pd_sms.iter().filter(|s| !s.is_output).map(|s| s.bytes() as usize).sum()
    }

    pub fn output_bytes(&self) -> usize {
        self.pd_sms.iter().filter(|s| s.is_output).map(|s| s.bytes() as usize).sum()
    }

    pub fn dc_supported(&self) -> bool {
        self.support_flags & 0x0004 != 0
    }
}

#[derive(Clone, Debug)]
pub struct GenCfg {
    pub mailbox_pct: u32,
    pub coe_pct: u32,
    pub name_pct: u32,
    pub dc_pct: u32,
    pub max_pd_sms_per_dir: usize,
    pub max_pdos: usize,
    pub max_entries: usize,
    pub max_entry_bits: usize,
    pub pd_pct: u32,
    pub contiguous_sms: bool,
    pub fmmu_ex_pct: u32,
    pub sii_opts: GenOpts,
    pub mailbox_sizes: Vec<u16>,
    /// Give every device enough FMMUs for any assignment (16) or a tight count.
    pub tight_fmmus: bool,
}

impl Default for GenCfg {
    fn default() -> Self {
        GenCfg {
            mailbox_pct: 50,
            coe_pct: 70,
            name_pct: 80,
            dc_pct: 50,
            max_pd_sms_per_dir: 1,
            max_pdos: 3,
            max_entries: 4,
            max_entry_bits: 32,
            pd_pct: 80,
            contiguous_sms: true,
            fmmu_ex_pct: 0,
            sii_opts: GenOpts::default(),
            mailbox_sizes: vec![128, 64, 256, 48, 32, 512],
            tight_fmmus: false,
        }
    }
}

fn gen_pdos(t: &mut Tape, cfg: &GenCfg, sm: u8, is_output: bool, base_index: u16) -> Vec<PdoDesc> {
    let n = 1 + t.choose(cfg.max_pdos, "n_pdos");
    (0..n)
        .map(|p| {
            let ne = 1 + t.choose(cfg.max_entries, "n_entries");
            PdoDesc {
                index: base_index + p as u16,
                sm,
                dc_sync: 0,
                name_idx: 0,
                flags: 0,
                entries: (0..ne)
                    .map(|e| PdoEntryDesc {
                        index: if is_output { 0x7000 } else { 0x6000 } + (p as u16) * 0x10,
                        sub: e as u8 + 1,
                        name_idx: 0,
                        data_type: 0,
                        bit_len: match t.choose(5, "bits_class") {
                            0 => 1,
                            1 => 8,
                            2 => 16,
                            3 => 32.min(cfg.max_entry_bits as u8),
                            _ => 1 + t.choose(cfg.max_entry_bits, "bits") as u8,
                        },
                        flags: 0,
                    })
                    .collect(),
            }
        })
        .collect()
}

pub fn gen_device(t: &mut Tape, cfg: &GenCfg, ordinal: usize) -> DevSpec {
    let vendor = 0x0000_0002 + (t.choose(4, "vendor") as u32) * 0x100;
    let product = 0x1000_0000u32.wrapping_add(t.bits32("product") & 0x0fff_ffff);
    let revision = t.bits32("revision");
    let serial = 0x5000_0000 + ordinal as u32 * 17 + (t.choose(16, "serial") as u32);
    let alias = if t.flag(40, 100, "has_alias") { t.choose(0x10000, "alias") as u16 } else { 0 };
    let name_raw = if t.flag(cfg.name_pct, 100, "has_name") {
        let mut s: Vec<u8> = format!("DEV{}-", ordinal).into_bytes();
        let extra = t.choose(20, "name_extra");
        for i in 0..extra {
            s.push(b'a' + ((i * 5 + ordinal) % 26) as u8);
        }
        // A name that exactly fills (or just fits) the 64 byte name capacity.
        if crate::tape::gen() >= 2 && t.flag(12, 100, "name_boundary") {
            let target = t.pick(&[64usize, 63], "name_len_at");
            while s.len() < target {
                s.push(b'a' + ((s.len() * 3 + ordinal) % 26) as u8);
            }
        }
        if t.flag(10, 100, "name_hi") {
            if s.len() >= 64 {
                s.pop();
            }
            s.push(0xb5);
        }
        if t.flag(10, 100, "name_nul") {
            if s.len() >= 64 {
                s.pop();
            }
            s.push(0);
        }
        Some(s)
    } else {
        None
    };
    let has_mailbox = t.flag(cfg.mailbox_pct, 100, "has_mailbox");
    let mut next_phys: u16 = 0x1000;
    let mailbox = if has_mailbox {
        let wl = t.pick(&cfg.mailbox_sizes, "mbx_wlen");
        let rl = if t.flag(70, 100, "mbx_same") { wl } else { t.pick(&cfg.mailbox_sizes, "mbx_rlen") };
        let ws = next_phys;
        next_phys += wl.max(0x80);
        let rs = next_phys;
        next_phys += rl.max(0x80);
        Some(MbxSpec {
            write_start: ws,
            write_len: wl,
            read_start: rs,
            read_len: rl,
            coe: t.flag(cfg.coe_pct, 100, "coe"),
            complete_access: t.flag(50, 100, "complete_access"),
        })
    } else {
        None
    };
    // Process data sync managers: outputs first (lower SM indices), then inputs, as usual.
    let mut pd_sms: Vec<PdSm> = Vec::new();
    let mut sm_index: u8 = if has_mailbox { 2 } else { 0 };
    if t.flag(cfg.pd_pct, 100, "has_pd") {
        let n_out = t.choose(cfg.max_pd_sms_per_dir + 1, "n_out_sms");
        let n_in = t.choose(cfg.max_pd_sms_per_dir + 1, "n_in_sms");
        next_phys = next_phys.max(0x1100);
        for k in 0..n_out {
            let pdos = gen_pdos(t, cfg, sm_index, true, 0x1600 + (k as u16) * 0x10);
            let sm = PdSm { index: sm_index, is_output: true, start: next_phys, pdos };
            next_phys += sm.bytes().max(1);
            if !cfg.contiguous_sms {
                next_phys += 8 * t.choose(4, "sm_gap") as u16;
            }
            pd_sms.push(sm);
            sm_index += 1;
        }
        next_phys = (next_phys + 0x7f) & !0x7f;
        for k in 0..n_in {
            let pdos = gen_pdos(t, cfg, sm_index, false, 0x1a00 + (k as u16) * 0x10);
            let sm = PdSm { index: sm_index, is_output: false, start: next_phys, pdos };
            next_phys += sm.bytes().max(1);
            if !cfg.contiguous_sms {
                next_phys += 8 * t.choose(4, "sm_gap") as u16;
            }
            pd_sms.push(sm);
            sm_index += 1;
        }
    }
    // Process data FMMUs: one per direction when the sync managers of that direction are adjacent in
    // memory (the FMMU spans them), otherwise one per sync manager.
    let mut fmmu_usage: Vec<u8> = Vec::new();
    let mut fmmu_sm: Vec<u8> = Vec::new(); // the (first) sync manager each FMMU serves
    for is_out in [true, false] {
        let dir: Vec<&PdSm> = pd_sms.iter().filter(|s| s.is_output == is_out).collect();
        if dir.is_empty() {
            continue;
        }
        let contiguous = dir.windows(2).all(|p| p[0].start + p[0].bytes() == p[1].start);
        let per_sm = !contiguous || (dir.len() > 1 && t.flag(30, 100, "fmmu_per_sm"));
        if per_sm {
            for s in &dir {
                fmmu_usage.push(if is_out { 1 } else { 2 });
                fmmu_sm.push(s.index);
            }
        } else {
            fmmu_usage.push(if is_out { 1 } else { 2 });
            fmmu_sm.push(dir[0].index);
        }
    }
    if has_mailbox && t.flag(50, 100, "mbx_fmmu") {
        fmmu_usage.push(3);
        fmmu_sm.push(1);
    }
    // FMMU_EX: entry N names the sync manager FMMU N serves. Only meaningful (and only generated)
    // when every process data sync manager has its own FMMU.
    let one_fmmu_per_sm = fmmu_sm.iter().filter(|s| **s != 1 || !has_mailbox).count() >= pd_sms.len();
    let fmmu_ex = if one_fmmu_per_sm && !pd_sms.is_empty() && t.flag(cfg.fmmu_ex_pct, 100, "fmmu_ex") {
        Some(fmmu_sm.iter().map(|s| [0u8, *s, 0u8]).collect())
    } else {
        None
    };
    let dc = t.flag(cfg.dc_pct, 100, "dc");
    let support_flags: u16 = if dc {
        0x0004 | if t.flag(60, 100, "dc64") { 0x0008 } else { 0 } | if t.flag(80, 100, "dc_enh") { 0x0100 } else { 0 } | 0x0001
    } else {
        t.pick(&[0x0000u16, 0x0001, 0x0002, 0x0200], "flags_nodc")
    };
    let size_kbit = t.pick(&[16usize, 8, 32, 4, 64], "size_kbit");
    let pd = PdLayout {
        sms: pd_sms.iter().map(|s| (s.index, s.is_output, s.start, s.pdos.clone())).collect(),
    };
    let mbx_desc = mailbox.as_ref().map(|m| {
        (
            MailboxDesc {
                recv_offset: m.write_start,
                recv_size: m.write_len,
                send_offset: m.read_start,
                send_size: m.read_len,
                protocols: if m.coe { 0x04 } else { 0x08 } | if t.flag(30, 100, "eoe_proto") { 0x02 } else { 0 },
            },
            if m.coe { 0x01 | 0x04 | 0x08 | if m.complete_access { 0x20 } else { 0 } } else { 0 },
        )
    });
    let mut image = sii::build_image(t, &cfg.sii_opts, vendor, product, revision, serial, alias, name_raw.clone(), mbx_desc, &pd, fmmu_usage.clone(), fmmu_ex.clone(), size_kbit);
    let mut eeprom = image.encode(true);
    // Images that do not fit the declared size: bump the size word.
    while eeprom.len() > (image.header.size_word as usize + 1) * 128 {
        image.header.size_word = image.header.size_word * 2 + 1;
        eeprom = image.encode(true);
    }
    let size_kbit = image.header.size_word as usize + 1;
    // A device implements the FMMUs its EEPROM's FMMU category lists.
    let need_fmmus = (fmmu_usage.len() as u8).max(1);
    DevSpec {
        vendor,
        product,
        revision,
        serial,
        alias,
        name_raw,
        mailbox,
        pd_sms,
        fmmu_usage,
        fmmu_ex,
        support_flags,
        read8: t.flag(50, 100, "read8"),
        fmmu_count: if cfg.tight_fmmus { need_fmmus } else { t.pick(&[8u8, 16], "fmmu_count").max(need_fmmus) },
        sm_count: t.pick(&[8u8, 16, 4], "sm_count").max(sm_index),
        prev_station_addr: t.pick(&[0u16, 0x1000, 0x1001, 0x1234, 0xffff, 0x1002], "prev_addr"),
        size_kbit,
        image,
        eeprom,
    }
}

/// Fill the object dictionary of a CoE device from its description (ETG.1000.6 §5.6.7).
pub fn build_od(spec: &DevSpec) -> CoeServer {
    let mut s = CoeServer::new();
    let n_sm = spec.pd_sms.iter().map(|s| s.index + 1).max().unwrap_or(2).max(2);
    s.od.insert((0x1c00, 0), vec![n_sm]);
    for i in 0..n_sm {
        let ty = match i {
            0 => 1u8,
            1 => 2,
            _ => spec.pd_sms.iter().find(|s| s.index == i).map_or(0, |s| if s.is_output { 3 } else { 4 }),
        };
        s.od.insert((0x1c00, i + 1), vec![ty]);
    }
    for sm in &spec.pd_sms {
        let a = 0x1c10 + sm.index as u16;
        s.od.insert((a, 0), vec![sm.pdos.len() as u8]);
        for (k, p) in sm.pdos.iter().enumerate() {
            s.od.insert((a, k as u8 + 1), p.index.to_le_bytes().to_vec());
            s.od.insert((p.index, 0), vec![p.entries.len() as u8]);
            for (e, ent) in p.entries.iter().enumerate() {
                // Mapping entry: bit length (8), sub-index (8), index (16).
                let v: u32 = ent.bit_len as u32 | ((ent.sub as u32) << 8) | ((ent.index as u32) << 16);
                s.od.insert((p.index, e as u8 + 1), v.to_le_bytes().to_vec());
            }
        }
    }
    // Mailbox SMs have empty assignments.
    if spec.mailbox.is_some() {
        s.od.entry((0x1c10, 0)).or_insert(vec![0]);
        s.od.entry((0x1c11, 0)).or_insert(vec![0]);
    }
    // Identity object and device name.
    s.od.insert((0x1018, 0), vec![4]);
    s.od.insert((0x1018, 1), spec.vendor.to_le_bytes().to_vec());
    s.od.insert((0x1018, 2), spec.product.to_le_bytes().to_vec());
    s.od.insert((0x1018, 3), spec.revision.to_le_bytes().to_vec());
    s.od.insert((0x1018, 4), spec.serial.to_le_bytes().to_vec());
    s.od.insert((0x1008, 0), spec.expected_name().into_bytes());
    s.info_lists.insert(1, s.od.keys().map(|k| k.0).collect::<std::collections::BTreeSet<_>>().into_iter().collect());
    s
}

pub fn build_device(spec: &DevSpec) -> Device {
    let mut d = Device::new(spec.eeprom.clone(), spec.read8, spec.support_flags, spec.fmmu_count, spec.sm_count);
    d.mem[0x0010] = spec.prev_station_addr as u8;
    d.mem[0x0011] = (spec.prev_station_addr >> 8) as u8;
    if let Some(m) = &spec.mailbox {
        d.expected_mailbox = Some((m.write_start, m.write_len, m.read_start, m.read_len));
        if m.coe {
            d.coe = Some(build_od(spec));
        }
    }
    for sm in &spec.pd_sms {
        d.expected_pd_sms.insert(sm.index, (sm.start, sm.bytes(), sm.is_output));
    }
    d
}

pub fn gen_network(t: &mut Tape, cfg: &GenCfg, n: usize) -> (Vec<DevSpec>, Segment) {
    let specs: Vec<DevSpec> = (0..n).map(|i| gen_device(t, cfg, i)).collect();
    let devices = specs.iter().map(build_device).collect();
    (specs, Segment::chain(devices))
}
