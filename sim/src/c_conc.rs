//! C20: tasks sharing one MainDevice do not disturb each other. 2..4 tasks (process data cycles of
//! different groups, register accesses, EEPROM reads, SDO transfers on different SubDevices) run
//! concurrently on engine S with every await-point interleaving and per-frame latency drawn from the
//! tape; each task's result sequence must equal what the same task yields running alone on a clone
//! of the post-initialisation segment state.

use crate::c_init::{sim_error_violation, viol, Groups};
use crate::checks::PropertyRun;
use crate::engines::SimError;
use crate::esc::{AlBehaviour, Segment, ST_OP};
use crate::netgen::{self, GenCfg};
use crate::rng::{mix, TraceHash};
use crate::runner::CaseOutcome;
use crate::simlock::SimLock;
use crate::tape::Tape;
use crate::world::{now_ns, World, WorldCfg};
use ethercrab::error::Error;
use ethercrab::subdevice_group::{Op, SubDeviceGroupHandle};
use ethercrab::{Command, MainDevice, SubDevice, SubDeviceGroup};
use serde_json::json;
use std::future::Future;
use std::pin::Pin;

fn tape_of(rs: u64, replay: Option<Vec<u32>>) -> Tape {
    match replay {
        Some(v) => Tape::replay(v),
        None => Tape::search(rs),
    }
}

type OpGroup = SubDeviceGroup<16, 4096, SimLock, Op>;

#[derive(Clone, Debug)]
enum TaskSpec {
    Pd { group: usize, cycles: usize, nonce: u64 },
    Reg { device: usize, ops: usize, nonce: u64 },
    Eeprom { device: usize, ops: usize, nonce: u64 },
    Sdo { device: usize, ops: usize, nonce: u64 },
}

/// A task's observable results, one entry per operation.
type Results = Vec<String>;

fn hex(b: &[u8]) -> String {
    b.iter().map(|x| format!("{:02x}", x)).collect()
}

async fn pd_task(g: &OpGroup, md: &'static MainDevice<'static>, cycles: usize, nonce: u64) -> Results {
    let mut out = Vec::new();
    for c in 0..cycles {
        for sd in g.iter(md) {
            let i = sd.configured_address() as u64;
            let mut o = sd.outputs_raw_mut();
            for (k, b) in o.iter_mut().enumerate() {
                *b = (mix(&[nonce, i, c as u64, (k / 8) as u64]) >> ((k % 8) * 8)) as u8 | 1;
            }
        }
        match g.tx_rx(md).await {
            Ok(r) => {
                let mut line = format!("cycle {} wkc {} states {:?}", c, r.working_counter, r.subdevice_states);
                for sd in g.iter(md) {
                    let io = sd.io_raw();
                    line.push_str(&format!(" | {:#06x} in {} out {}", sd.configured_address(), hex(io.inputs()), hex(io.outputs())));
                }
                out.push(line);
            }
            Err(e) => out.push(format!("cycle {} error {:?}", c, e)),
        }
    }
    out
}

async fn reg_task(md: &'static MainDevice<'static>, device: usize, ops: usize, nonce: u64) -> Results {
    let addr = 0x1000 + device as u16;
    let mut out = Vec::new();
    for k in 0..ops {
        let v = mix(&[nonce, k as u64]) as u32 | 1;
        // User RAM area of the ESC: nothing else touches it.
        let reg = 0x0f80 + 4 * (k as u16 % 8);
        let r: Result<u32, Error> = Command::fpwr(addr, reg).send_receive::<u32>(md, v).await;
        out.push(format!("write {:#06x} {:?}", reg, r));
        let r: Result<u32, Error> = Command::fprd(addr, reg).receive::<u32>(md).await;
        out.push(format!("read {:#06x} {:?} (wrote {:#x})", reg, r, v));
        let r: Result<u16, Error> = Command::fprd(addr, 0x0010).receive::<u16>(md).await;
        out.push(format!("station address {:?}", r));
    }
    out
}

async fn eeprom_task(g: &OpGroup, idx: usize, md: &'static MainDevice<'static>, ops: usize, nonce: u64) -> Results {
    let mut out = Vec::new();
    let sd = g.subdevice(md, idx).expect("subdevice");
    for k in 0..ops {
        let start = (mix(&[nonce, k as u64]) % 0x60) as u16;
        let len = 2 + (mix(&[nonce, k as u64, 7]) % 20) as usize;
        let mut buf = vec![0u8; len];
        let r = sd.eeprom_read_raw(md, start, &mut buf).await;
        out.push(format!("eeprom {:#06x}+{} {:?} {}", start, len, r, hex(&buf)));
    }
    out
}

async fn sdo_task(g: &OpGroup, idx: usize, md: &'static MainDevice<'static>, ops: usize, nonce: u64) -> Results {
    let mut out = Vec::new();
    let sd = g.subdevice(md, idx).expect("subdevice");
    for k in 0..ops {
        match k % 3 {
            0 => {
                let r = sd.sdo_read::<u32>(0x1018, 1 + (k as u8 / 3) % 4).await;
                out.push(format!("sdo_read 0x1018:{} {:?}", 1 + (k / 3) % 4, r));
            }
            1 => {
                let v = mix(&[nonce, k as u64]) as u16 | 1;
                let r = sd.sdo_write(0x2000 + k as u16, 1, v).await;
                out.push(format!("sdo_write {:#06x} {:?}", 0x2000 + k, r));
                let r = sd.sdo_read::<u16>(0x2000 + k as u16, 1).await;
                out.push(format!("sdo_read back {:?} (wrote {:#x})", r, v));
            }
            _ => {
                let r = sd.sdo_read::<heapless::String<64>>(0x1008, 0).await;
                out.push(format!("sdo_read name {:?}", r));
            }
        }
    }
    out
}

pub fn c20_case(rs: u64, _nonce: u64, replay: Option<Vec<u32>>) -> CaseOutcome {
    let mut t = tape_of(rs, replay);
    let mut out = CaseOutcome::default();
    let n = 2 + t.choose(7, "n_devices");
    let cfg = GenCfg {
        mailbox_pct: 70,
        coe_pct: 100,
        pd_pct: 90,
        dc_pct: 20,
        max_pd_sms_per_dir: 1,
        contiguous_sms: true,
        fmmu_ex_pct: 0,
        tight_fmmus: false,
        mailbox_sizes: vec![64, 48, 128],
        ..GenCfg::default()
    };
    let (specs, mut seg) = netgen::gen_network(&mut t, &cfg, n);
    for d in seg.devices.iter_mut() {
        d.al_behaviour.insert(ST_OP, AlBehaviour::Accept { polls: 0 });
    }
    let n_groups = 2 + t.choose(2, "n_groups");
    let assign: Vec<u8> = (0..n).map(|i| if i < n_groups { i as u8 } else { t.choose(n_groups, "group_of") as u8 }).collect();
    // Tasks.
    let n_tasks = 2 + t.choose(3, "n_tasks");
    let mut tasks: Vec<TaskSpec> = Vec::new();
    let mut used_groups = Vec::new();
    let mut used_devices: Vec<usize> = Vec::new();
    for k in 0..n_tasks {
        let nonce = t.bits32("task_nonce") as u64 | 1;
        let kind = if k < 2 { 0 } else { t.choose(4, "task_kind") };
        let free_device = |t: &mut Tape, used: &Vec<usize>, pred: &dyn Fn(usize) -> bool| -> Option<usize> {
            let c: Vec<usize> = (0..n).filter(|i| !used.contains(i) && pred(*i)).collect();
            if c.is_empty() {
                None
            } else {
                Some(c[t.choose(c.len(), "task_device")])
            }
        };
        match kind {
            0 => {
                let free: Vec<usize> = (0..n_groups).filter(|g| !used_groups.contains(g)).collect();
                if let Some(&g) = free.first() {
                    used_groups.push(g);
                    tasks.push(TaskSpec::Pd { group: g, cycles: 3 + t.choose(20, "cycles"), nonce });
                    continue;
                }
                if let Some(d) = free_device(&mut t, &used_devices, &|_| true) {
                    used_devices.push(d);
                    tasks.push(TaskSpec::Reg { device: d, ops: 2 + t.choose(8, "reg_ops"), nonce });
                }
            }
            1 => {
                if let Some(d) = free_device(&mut t, &used_devices, &|_| true) {
                    used_devices.push(d);
                    tasks.push(TaskSpec::Reg { device: d, ops: 2 + t.choose(8, "reg_ops"), nonce });
                }
            }
            2 => {
                if let Some(d) = free_device(&mut t, &used_devices, &|_| true) {
                    used_devices.push(d);
                    tasks.push(TaskSpec::Eeprom { device: d, ops: 2 + t.choose(6, "ee_ops"), nonce });
                }
            }
            _ => {
                if let Some(d) = free_device(&mut t, &used_devices, &|i| specs[i].mailbox.as_ref().map_or(false, |m| m.coe)) {
                    used_devices.push(d);
                    tasks.push(TaskSpec::Sdo { device: d, ops: 2 + t.choose(6, "sdo_ops"), nonce });
                }
            }
        }
    }
    let slots = {
        let need = tasks.len().next_power_of_two();
        t.pick(&[need, need * 2, 16, 32], "slots").max(need).min(32)
    };
    let frame_len = t.pick(&[1100usize, 256, 192, 1514], "frame_len");
    let max_latency = t.pick(&[500u64, 50, 5, 200], "max_latency");
    let wcfg = WorldCfg {
        slots,
        frame_len,
        static_sync_iterations: 0,
        pdu_timeout_us: 5_000,
        mailbox_response_us: 50_000,
        mailbox_echo_us: 20_000,
        eeprom_us: 20_000,
        state_transition_us: 50_000,
        ..WorldCfg::default()
    };
    let mut w = World::new(&wcfg, seg, t);
    let md = w.md();
    let assign2 = assign.clone();
    let init = w.sim.block_on(md.init::<16, Groups<16>>(now_ns, Groups::<16>::default(), move |g: &Groups<16>, sd: &SubDevice| {
        let i = (sd.configured_address().wrapping_sub(0x1000)) as usize;
        let h: &dyn SubDeviceGroupHandle = match assign2.get(i).copied().unwrap_or(0) {
            0 => &g.g0,
            1 => &g.g1,
            _ => &g.g2,
        };
        Ok(h)
    }));
    let mut th = TraceHash::default();
    th.add(n as u64);
    th.add(slots as u64);
    for tk in &tasks {
        th.add(match tk {
            TaskSpec::Pd { group, cycles, .. } => 1000 + *group as u64 * 100 + *cycles as u64,
            TaskSpec::Reg { device, ops, .. } => 2000 + *device as u64 * 100 + *ops as u64,
            TaskSpec::Eeprom { device, ops, .. } => 3000 + *device as u64 * 100 + *ops as u64,
            TaskSpec::Sdo { device, ops, .. } => 4000 + *device as u64 * 100 + *ops as u64,
        });
    }
    out.describe = json!({"devices": n, "groups": n_groups, "assignment": assign, "tasks": tasks.iter().map(|t| format!("{:?}", t)).collect::<Vec<_>>(), "slots": slots, "frame_len": frame_len, "max_latency_us": max_latency});
    let finish = |mut out: CaseOutcome, w: &World, th: TraceHash| {
        out.trace_hash = th.0;
        out.tape = w.sim.tape.consumed_values();
        out.steps = w.sim.stats.steps;
        out.sim_time_us = crate::clock::now();
        if !w.sim.seg.malformed.is_empty() && out.violations.is_empty() {
            out.violations.push(viol("malformed-frame", w.sim.seg.malformed[0].clone()));
        }
        out
    };
    let groups = match init {
        Err(e) => {
            out.violations.push(sim_error_violation("init", &e));
            return finish(out, &w, th);
        }
        Ok(Err(e)) => {
            out.violations.push(viol("init-failed", format!("{:?}", e)));
            return finish(out, &w, th);
        }
        Ok(Ok(g)) => g,
    };
    let Groups { g0, g1, g2 } = groups;
    let mut ops: Vec<Option<OpGroup>> = Vec::new();
    for g in [g0, g1, g2] {
        match w.sim.block_on(g.into_op(md)) {
            Ok(Ok(g)) => ops.push(Some(g)),
            Ok(Err(_)) => ops.push(None), // e.g. an open C08 finding on this device mix: not this property's concern
            Err(e) => {
                out.violations.push(sim_error_violation("into_op", &e));
                return finish(out, &w, th);
            }
        }
    }
    if ops.iter().take(n_groups).any(|g| g.is_none()) {
        out.inconclusive = true;
        return finish(out, &w, th);
    }
    // Constant inputs per device so that results are a pure function of the device.
    for (i, s) in specs.iter().enumerate() {
        for sm in s.pd_sms.iter().filter(|m| !m.is_output) {
            let a = sm.start as usize;
            for k in 0..sm.bytes() as usize {
                w.sim.seg.devices[i].mem[a + k] = (mix(&[0x1234, i as u64, k as u64]) as u8) | 1;
            }
        }
    }
    let snapshot: Segment = w.sim.seg.clone();
    // SAFETY of lifetimes: the groups live in `ops` for the rest of this function; the futures are
    // dropped before it.
    let ops_ref: &'static Vec<Option<OpGroup>> = unsafe { &*(&ops as *const Vec<Option<OpGroup>>) };
    let make = |spec: &TaskSpec| -> Pin<Box<dyn Future<Output = Results> + 'static>> {
        match spec.clone() {
            TaskSpec::Pd { group, cycles, nonce } => Box::pin(pd_task(ops_ref[group].as_ref().unwrap(), md, cycles, nonce)),
            TaskSpec::Reg { device, ops, nonce } => Box::pin(reg_task(md, device, ops, nonce)),
            TaskSpec::Eeprom { device, ops, nonce } => {
                let (g, idx) = locate(ops_ref, md, device);
                Box::pin(eeprom_task(ops_ref[g].as_ref().unwrap(), idx, md, ops, nonce))
            }
            TaskSpec::Sdo { device, ops, nonce } => {
                let (g, idx) = locate(ops_ref, md, device);
                Box::pin(sdo_task(ops_ref[g].as_ref().unwrap(), idx, md, ops, nonce))
            }
        }
    };
    // Concurrent execution.
    w.sim.latency = (0, max_latency);
    let futs: Vec<Pin<Box<dyn Future<Output = Results>>>> = tasks.iter().map(&make).collect();
    let concurrent = w.sim.run_tasks(futs);
    let reordered = w.sim.stats.reordered;
    let max_in_flight = w.sim.stats.max_in_flight;
    out.probes.insert("responses_overtaking".into(), reordered);
    out.probes.insert("max_frames_in_flight".into(), max_in_flight as u64);
    out.probes.insert(format!("tasks_{}", tasks.len()), 1);
    out.nontrivial = tasks.len() >= 2 && max_in_flight >= 2;
    let concurrent = match concurrent {
        Err(e) => {
            let mut v = sim_error_violation("concurrent execution", &e);
            if let SimError::Panic(_) = e {
                v.signature = "panic@concurrent".into();
            }
            out.violations.push(v);
            return finish(out, &w, th);
        }
        Ok(r) => r,
    };
    // Sequential reference: every task alone on a clone of the post-init state.
    w.sim.latency = (1, 1);
    for (k, spec) in tasks.iter().enumerate() {
        w.sim.seg = snapshot.clone();
        let alone = match w.sim.run_tasks(vec![make(spec)]) {
            Ok(mut r) => r.pop().unwrap(),
            Err(e) => {
                out.violations.push(sim_error_violation("sequential reference run", &e));
                return finish(out, &w, th);
            }
        };
        if alone != concurrent[k] {
            let first = alone.iter().zip(concurrent[k].iter()).position(|(a, b)| a != b).unwrap_or(alone.len().min(concurrent[k].len()));
            let is_err = concurrent[k].get(first).map_or(false, |l| l.contains("Err(") || l.contains("error"));
            let mut v = viol(
                if is_err { "failed-because-of-others" } else { "result-differs-from-running-alone" },
                format!(
                    "task {} ({:?}), operation {}: running with {} other task(s) gave `{}`; running alone on the same device state gives `{}`",
                    k,
                    spec,
                    first,
                    tasks.len() - 1,
                    concurrent[k].get(first).map_or("<missing>", |s| s.as_str()).chars().take(300).collect::<String>(),
                    alone.get(first).map_or("<missing>", |s| s.as_str()).chars().take(300).collect::<String>()
                ),
            );
            v.signature = format!("{}@{}", v.clause, match spec {
                TaskSpec::Pd { .. } => "pd",
                TaskSpec::Reg { .. } => "register",
                TaskSpec::Eeprom { .. } => "eeprom",
                TaskSpec::Sdo { .. } => "sdo",
            });
            out.violations.push(v);
            break;
        }
        // Alone, nothing may fail either (otherwise the comparison says nothing).
        if let Some(bad) = alone.iter().find(|l| l.contains("Err(") || l.contains(" error ")) {
            out.violations.push(viol("reference-run-failed", format!("task {} alone: {}", k, bad.chars().take(300).collect::<String>())));
            break;
        }
    }
    drop(ops);
    finish(out, &w, th)
}

/// Find (group index, index within group) of the device at ring position `device`.
fn locate(ops: &'static Vec<Option<OpGroup>>, md: &'static MainDevice<'static>, device: usize) -> (usize, usize) {
    for (gi, g) in ops.iter().enumerate() {
        if let Some(g) = g {
            for (k, sd) in g.iter(md).enumerate() {
                if sd.configured_address() == 0x1000 + device as u16 {
                    return (gi, k);
                }
            }
        }
    }
    (0, 0)
}

pub fn run_c20(tier: &str, seed: u64, workers: usize) -> i32 {
    let thorough = tier == "thorough";
    let mut pr = PropertyRun::new("C20", tier, seed, workers);
    pr.real_components = vec!["ethercrab MainDevice shared by all tasks, PDU loop (slot allocation, index routing), group cycles, register/EEPROM/SDO clients — real code"];
    pr.stub_components = vec!["executor: tasks are polled in an order drawn from the tape at every await point", "wire: per-frame latency 0..500 us drawn from the tape so responses overtake each other", "EtherCAT segment reference model (processes each frame at transmission time)", "clock"];
    pr.assumptions = vec![
        "tasks operate on disjoint groups / SubDevices / registers so that a sequential oracle is well defined; device inputs are constant".into(),
        "each task has at most one frame in flight, the storage has at least as many slots as there are tasks".into(),
        "first batch: interleaving granularity is the await point; second batch (fibre engine): every instrumented shared-state access of the PDU loop, register-level requests only".into(),
    ];
    let (runs, wall) = if thorough { (600_000u64, 600u64) } else { (60_000u64, 40u64) };
    pr.replay_witnesses("concurrent-tasks", &c20_case);
    pr.batch("concurrent-tasks", runs, wall, "one run = 2..8 devices in 2..3 groups brought to OP, then 2..4 concurrent tasks (process data cycles of different groups, register read/write, EEPROM reads, SDO transfers on different SubDevices) with drawn slot counts (just enough .. 32) and latencies; oracle = each task's full result sequence equals the sequence of the same task run alone on a clone of the post-init segment, and contains no error; non-trivial = at least two frames were in flight at once; distinct = hash of the task set", &c20_case);
    // Sub-poll batch on the fibre engine: the same property at the granularity of every shared-state
    // access of the PDU loop, with one task whose requests are lost, time out, are retried or are
    // dropped at any instant. The other tasks must neither fail nor see foreign bytes.
    let f = move |rs: u64, nonce: u64, replay: Option<Vec<u32>>| crate::c_pdu::case(crate::pduscen::Prop::C20, thorough, rs, nonce, replay);
    let (runs, wall) = if thorough { (10_000_000u64, 400u64) } else { (1_000_000u64, 25u64) };
    pr.replay_witnesses("concurrent-tasks-subpoll", &f);
    pr.batch("concurrent-tasks-subpoll", runs, wall, "one run = 2..3 application fibres issuing 1..6 register/logical requests each through the public builders on one MainDevice with 4 or 8 frame slots, plus the TX and RX fibres, pre-empted at every instrumented shared-state access of the PDU loop; task 0 disturbs (its responses are lost with a drawn rate or always, its requests time out, are retried, or its futures are dropped at a drawn poll); simulated time only advances when every party is blocked; oracle = every other task's request completes with exactly the bytes and working counter the wire returned for it, none times out, no allocation fails; non-trivial = a fault fired, two requests overlapped and a pre-emption happened inside a PDU-loop function; distinct = hash of the full event trace", &f);
    pr.finish()
}
