//! C04 (generated push programs vs. an independent encoder) and C05 (hostile frames in every
//! combination of slot states). Both drive the real PDU loop sequentially through the hook wrappers;
//! "parties" are nested calls on one stack (the TX side is held *inside* its send closure while the
//! receive side is fed), so no scheduler is needed to reach any slot-state combination.

use crate::checks::PropertyRun;
use crate::enginef::{waker_of, Flag};
use crate::hb::state_name;
use crate::pduscen::{CmdKind, ALL_KINDS};
use crate::rng::{mix, TraceHash};
use crate::runner::{CaseOutcome, Violation};
use crate::storage;
use crate::tape::Tape;
use crate::wire;
use ethercrab::error::{Error, PduError};
use ethercrab::verif::{self, CreatedFrame, ReceiveFrameFut, ReceivedFrame};
use ethercrab::{PduLoop, PduRx, PduTx, ReceiveAction};
use serde_json::json;
use std::collections::BTreeMap;
use std::future::Future;
use std::panic::{catch_unwind, AssertUnwindSafe};
use std::pin::Pin;
use std::task::{Context, Poll};
use std::time::Duration;

fn viol(clause: &str, detail: String) -> Violation {
    Violation {
        clause: clause.to_string(),
        signature: clause.to_string(),
        detail,
    }
}

const NO_DEADLINE: Duration = Duration::from_secs(1_000_000);

// ---------------------------------------------------------------------------------------------
// C04
// ---------------------------------------------------------------------------------------------

#[derive(Clone, Debug)]
enum Push {
    Pdu { kind: CmdKind, key: u32, data_len: usize, over: Option<u16> },
    Rest { kind: CmdKind, key: u32, data_len: usize },
}

/// Independent model of a frame under construction.
struct FrameModel {
    cap: usize,
    body: Vec<u8>,
    last_hdr: Option<usize>,
}

impl FrameModel {
    fn new(frame_len: usize) -> Self {
        FrameModel {
            cap: frame_len - 16,
            body: Vec::new(),
            last_hdr: None,
        }
    }

    fn append(&mut self, cmd: u8, idx: u8, addr: [u8; 4], len: usize, data: &[u8]) {
        if let Some(h) = self.last_hdr {
            self.body[h + 7] |= 0x80; // more follows on the previous datagram
        }
        let start = self.body.len();
        self.body.push(cmd);
        self.body.push(idx);
        self.body.extend_from_slice(&addr);
        self.body.extend_from_slice(&((len as u16) & 0x07ff).to_le_bytes());
        self.body.extend_from_slice(&[0, 0]); // irq
        self.body.extend_from_slice(data);
        self.body.extend(std::iter::repeat(0).take(len - data.len()));
        self.body.extend_from_slice(&[0, 0]); // wkc
        self.last_hdr = Some(start);
    }

    fn wire_bytes(&self) -> Vec<u8> {
        let mut out = vec![0xff; 6];
        out.extend_from_slice(&[0x10; 6]);
        out.extend_from_slice(&[0x88, 0xa4]);
        let h = (self.body.len() as u16 & 0x07ff) | 0x1000;
        out.extend_from_slice(&h.to_le_bytes());
        out.extend_from_slice(&self.body);
        out
    }
}

fn poll_once<F: Future>(fut: Pin<&mut F>) -> Poll<F::Output> {
    let flag = Flag::new();
    let waker = waker_of(&flag);
    let mut cx = Context::from_waker(&waker);
    fut.poll(&mut cx)
}

fn payload_bytes(nonce: u64, key: u32, n: usize) -> Vec<u8> {
    (0..n).map(|i| (mix(&[nonce, key as u64, i as u64 / 8]) >> ((i % 8) * 8)) as u8 | 1).collect()
}

/// Leave something behind in the slot that the next request must not inherit: a longer request and
/// the response to it (non-zero working counters and data), or an abandoned build.
fn dirty_slot(t: &mut Tape, pl: &'static PduLoop<'static>, tx: &mut PduTx<'static>, rx: &mut PduRx<'static>, nonce: u64) -> u32 {
    let frame_len = verif::frame_len(pl);
    let cap = frame_len - 16;
    let mode = t.choose(4, "dirty_mode");
    if mode == 0 {
        return 0;
    }
    let Ok(mut f) = verif::alloc_frame(pl) else { return 0 };
    // Fill the whole frame with one datagram of the maximum size, non-zero payload.
    let n = cap.saturating_sub(12);
    let data = payload_bytes(nonce ^ 0xd1, 7, n);
    let (cmd, _) = CmdKind::Lrw.command(0x7000_0000);
    if verif::push_pdu(&mut f, cmd, &data, None).is_err() {
        return 1;
    }
    if mode == 1 {
        drop(f); // abandoned build
        return 1;
    }
    let mut fut = Box::pin(verif::mark_sendable(f, pl, NO_DEADLINE, 0));
    let mut sent: Vec<u8> = Vec::new();
    if let Some(sf) = tx.next_sendable_frame() {
        let _ = sf.send_blocking(|b| {
            sent = b.to_vec();
            Ok(b.len())
        });
    }
    if mode == 2 {
        drop(fut); // abandoned in flight
        return 2;
    }
    // Deliver a response full of ones (wkc 0xffff, irq untouched) and read it.
    if let Ok(mut fr) = wire::decode(&sent) {
        for d in fr.datagrams.iter_mut() {
            for b in d.data.iter_mut() {
                *b = 0xff;
            }
            d.wkc = 0xffff;
            d.irq = 0xffff;
        }
        let resp = wire::encode_response(&fr);
        let _ = rx.receive_frame(&resp);
    }
    if let Poll::Ready(Ok(rf)) = poll_once(fut.as_mut()) {
        drop(rf);
    }
    3
}

pub fn c04_case(run_seed: u64, nonce: u64, replay: Option<Vec<u32>>) -> CaseOutcome {
    let mut t = match replay {
        Some(v) => Tape::replay(v),
        None => Tape::search(run_seed),
    };
    // A panic anywhere in the code under test is a violation of this run, not a harness crash.
    match catch_unwind(AssertUnwindSafe(|| c04_body(&mut t, nonce))) {
        Ok(out) => out,
        Err(p) => {
            let msg = p.downcast_ref::<&str>().map(|s| s.to_string()).or_else(|| p.downcast_ref::<String>().cloned()).unwrap_or_else(|| "panic".into());
            let mut out = CaseOutcome::default();
            out.tape = t.consumed_values();
            out.nontrivial = true;
            out.violations.push(viol("panic", format!("the code under test panicked: {}", msg)));
            out
        }
    }
}

fn c04_body(t: &mut Tape, nonce: u64) -> CaseOutcome {
    let sizes = storage::all_sizes();
    // Bias toward the small sizes where every byte is a boundary.
    let frame_len = if t.flag(70, 100, "small_frame") {
        28 + t.choose(101, "frame_small")
    } else {
        sizes[t.choose(sizes.len(), "frame_len")]
    };
    let slots = t.pick(&[1usize, 2, 4], "slots");
    let store = storage::make(slots, frame_len).expect("menu");
    let (mut tx, mut rx, pl) = store.split();
    let pl: &'static PduLoop<'static> = Box::leak(Box::new(pl));
    let cap = frame_len - 16;
    let mut out = CaseOutcome::default();
    let mut th = TraceHash::default();
    let mut programs_desc = Vec::new();
    let mut boundary_events = 0u64;
    let mut frames_checked = 0u64;
    let mut dirtied = 0u64;
    let n_programs = 1 + t.choose(3, "n_programs");

    'programs: for prog in 0..n_programs {
        let d = dirty_slot(t, pl, &mut tx, &mut rx, nonce);
        if d > 0 {
            dirtied += 1;
        }
        let n_push = 1 + t.choose(12, "n_push");
        let mut pushes = Vec::new();
        for i in 0..n_push {
            let kind = t.pick(&ALL_KINDS, "kind");
            let key = 0x2000_0000u32 | ((prog as u32) << 16) | ((i as u32) << 8) | t.choose(256, "key_low") as u32;
            // Lengths concentrate around what still fits.
            let data_len = match t.choose(4, "len_class") {
                0 => t.choose(9, "len_tiny"),
                1 => t.choose(cap + 9, "len_any"),
                2 => cap.saturating_sub(12).saturating_sub(t.choose(4, "len_edge_below")) + t.choose(3, "len_edge_above"),
                _ => t.choose(40, "len_small"),
            };
            if t.flag(20, 100, "push_rest") {
                let data_len = match t.choose(3, "rest_class") {
                    0 => t.choose(2 * cap + 1, "rest_any"),
                    1 => t.choose(20, "rest_small"),
                    _ => 0,
                };
                pushes.push(Push::Rest { kind, key, data_len });
            } else {
                let over = match t.choose(4, "override") {
                    0 => None,
                    1 => Some(data_len as u16),
                    2 => Some((data_len as u16).saturating_sub(1 + t.choose(4, "ov_below") as u16)),
                    _ => Some((data_len as u16).saturating_add(1 + t.choose(24, "ov_above") as u16)),
                };
                pushes.push(Push::Pdu { kind, key, data_len, over });
            }
        }

        let (_, idx_before) = verif::counters(pl);
        let mut idx = idx_before;
        let mut frame = match verif::alloc_frame(pl) {
            Ok(f) => f,
            Err(e) => {
                out.violations.push(viol("alloc-failed", format!("allocation failed with {:?} although no frame is held", e)));
                break 'programs;
            }
        };
        let mut model = FrameModel::new(frame_len);
        let mut accepted = 0;
        for (pi, p) in pushes.iter().enumerate() {
            match p {
                Push::Pdu { kind, key, data_len, over } => {
                    let (cmd, addr) = kind.command(*key);
                    let data = payload_bytes(nonce, *key, *data_len);
                    let eff = over.map_or(*data_len, |o| (o as usize).max(*data_len));
                    let fits = model.body.len() + eff + 12 <= cap;
                    let res = verif::push_pdu(&mut frame, cmd, &data, *over);
                    // The index counter advances on every attempt, accepted or refused.
                    let my_idx = idx;
                    idx = idx.wrapping_add(1);
                    match (fits, res) {
                        (true, Ok(h)) => {
                            model.append(kind.code(), my_idx, addr, eff, &data);
                            accepted += 1;
                            if h.pdu_idx != my_idx || h.command_code != kind.code() || h.alloc_size != eff + 12 {
                                out.violations.push(viol(
                                    "handle-wrong",
                                    format!("push {} returned handle idx {} code {} alloc {}; expected idx {} code {} alloc {}", pi, h.pdu_idx, h.command_code, h.alloc_size, my_idx, kind.code(), eff + 12),
                                ));
                                break 'programs;
                            }
                        }
                        (false, Err(PduError::TooLong)) => {
                            boundary_events += 1;
                        }
                        (true, Err(e)) => {
                            out.violations.push(viol(
                                "push-refused",
                                format!("push {} of {} data bytes (override {:?}) refused with {:?} although {} of {} bytes are used", pi, data_len, over, e, model.body.len(), cap),
                            ));
                            break 'programs;
                        }
                        (false, other) => {
                            out.violations.push(viol(
                                "push-accepted-beyond-capacity",
                                format!("push {} of {} data bytes (override {:?}) returned {:?} with {} of {} bytes already used", pi, data_len, over, other.map(|h| h.alloc_size), model.body.len(), cap),
                            ));
                            break 'programs;
                        }
                    }
                }
                Push::Rest { kind, key, data_len } => {
                    let (cmd, addr) = kind.command(*key);
                    let data = payload_bytes(nonce, *key, *data_len);
                    let room = cap.saturating_sub(model.body.len()).saturating_sub(12);
                    let expect: Option<usize> = if data.is_empty() || room == 0 { None } else { Some(room.min(data.len())) };
                    let res = verif::push_pdu_slice_rest(&mut frame, cmd, &data);
                    match (expect, res) {
                        (None, Ok(None)) => {
                            boundary_events += 1;
                        }
                        (Some(n), Ok(Some((got, h)))) => {
                            let my_idx = idx;
                            idx = idx.wrapping_add(1);
                            if got != n || h.pdu_idx != my_idx || h.alloc_size != n + 12 {
                                out.violations.push(viol(
                                    "rest-report-wrong",
                                    format!("fill-the-rest push {} of {} bytes into {} free reported {} bytes consumed (handle idx {}, alloc {}); expected {} (idx {}, alloc {})", pi, data.len(), room, got, h.pdu_idx, h.alloc_size, n, my_idx, n + 12),
                                ));
                                break 'programs;
                            }
                            if n < data.len() {
                                boundary_events += 1;
                            }
                            model.append(kind.code(), my_idx, addr, n, &data[..n]);
                            accepted += 1;
                        }
                        (e, r) => {
                            out.violations.push(viol(
                                "rest-decision-wrong",
                                format!("fill-the-rest push {} of {} bytes with {} bytes free returned {:?}; expected {:?}", pi, data.len(), room, r.map(|o| o.map(|x| x.0)), e),
                            ));
                            break 'programs;
                        }
                    }
                }
            }
        }
        programs_desc.push(json!({"frame_len": frame_len, "dirtied": d, "pushes": pushes.iter().map(|p| format!("{:?}", p)).collect::<Vec<_>>(), "accepted": accepted}));
        th.add(accepted as u64);
        th.add_bytes(&model.body);

        // Send it and compare with the model, byte for byte.
        let mut fut = Box::pin(verif::mark_sendable(frame, pl, NO_DEADLINE, 0));
        let mut sent: Vec<u8> = Vec::new();
        let mut calls = 0;
        while let Some(sf) = tx.next_sendable_frame() {
            calls += 1;
            let _ = sf.send_blocking(|b| {
                sent = b.to_vec();
                Ok(b.len())
            });
        }
        if calls != 1 {
            out.violations.push(viol("tx-count", format!("{} frames became sendable for one request", calls)));
            break 'programs;
        }
        frames_checked += 1;
        let want = model.wire_bytes();
        if sent != want {
            let first_diff = sent.iter().zip(want.iter()).position(|(a, b)| a != b).unwrap_or(sent.len().min(want.len()));
            out.violations.push(viol(
                "frame-bytes",
                format!(
                    "transmitted frame differs from the independent encoding at byte {} (lengths {} vs {}): sent {:02x?}, expected {:02x?}",
                    first_diff,
                    sent.len(),
                    want.len(),
                    &sent[first_diff.saturating_sub(4)..(first_diff + 12).min(sent.len())],
                    &want[first_diff.saturating_sub(4)..(first_diff + 12).min(want.len())]
                ),
            ));
            break 'programs;
        }
        if accepted > 0 {
            if let Err(why) = wire::check_well_formed(&sent, frame_len) {
                out.violations.push(viol("malformed-frame", why));
                break 'programs;
            }
        }
        // Complete the life cycle so the slot is dirty with a response for the next program.
        if accepted > 0 {
            if let Ok(mut fr) = wire::decode(&sent) {
                for d in fr.datagrams.iter_mut() {
                    d.wkc = 3;
                    for b in d.data.iter_mut() {
                        *b ^= 0xa5;
                    }
                }
                let _ = rx.receive_frame(&wire::encode_response(&fr));
            }
            if let Poll::Ready(Ok(rf)) = poll_once(fut.as_mut()) {
                drop(rf);
            }
        }
        drop(fut);
    }
    out.trace_hash = th.0;
    out.tape = t.consumed_values();
    out.nontrivial = frames_checked > 0 && boundary_events > 0;
    out.steps = frames_checked;
    out.probes.insert("boundary_events(refusal|cut|empty)".into(), boundary_events);
    out.probes.insert("slots_dirtied_before_build".into(), dirtied);
    out.probes.insert("frames_compared".into(), frames_checked);
    out.describe = json!({"programs": programs_desc});
    // `pl` was leaked as a Box to obtain 'static; reclaim it before the storage goes.
    unsafe { drop(Box::from_raw(pl as *const PduLoop<'static> as *mut PduLoop<'static>)) };
    drop(store);
    out
}

// ---------------------------------------------------------------------------------------------
// C05
// ---------------------------------------------------------------------------------------------

#[derive(Clone, Copy, Debug, PartialEq, Eq)]
enum Target {
    Fresh,
    NoneAfterBuild,
    NoneStale,
    Created,
    Sendable,
    Sending,
    Sent,
    RxDone,
    RxProcessing,
}

const TARGETS: [Target; 8] = [
    Target::Sent,
    Target::NoneStale,
    Target::Created,
    Target::Sendable,
    Target::Sending,
    Target::RxDone,
    Target::RxProcessing,
    Target::NoneAfterBuild,
];

#[derive(Clone, PartialEq, Eq)]
struct Snap {
    state: u8,
    first_pdu: u16,
    payload_len: usize,
    bytes: Vec<u8>,
}

fn snapshot(pl: &PduLoop<'_>) -> Vec<Snap> {
    let n = verif::num_slots(pl);
    let len = verif::frame_len(pl);
    (0..n)
        .map(|i| {
            let info = verif::slot_info(pl, i);
            let mut bytes = vec![0u8; len];
            verif::slot_bytes(pl, i, &mut bytes);
            Snap {
                state: info.state,
                first_pdu: info.first_pdu,
                payload_len: info.pdu_payload_len,
                bytes,
            }
        })
        .collect()
}

struct C05Ctx<'a> {
    t: &'a mut Tape,
    pl: &'static PduLoop<'static>,
    nonce: u64,
    out: &'a mut CaseOutcome,
    th: TraceHash,
    /// The request frames as transmitted, per slot (for structure-aware mutation).
    sent_frames: BTreeMap<usize, Vec<u8>>,
    injected: u64,
    accepted: u64,
    matched_sent: u64,
    classes: BTreeMap<&'static str, u64>,
    samples: Vec<serde_json::Value>,
}

fn gen_frame(c: &mut C05Ctx<'_>) -> (Vec<u8>, &'static str) {
    let t = &mut *c.t;
    let frame_len = verif::frame_len(c.pl);
    let bases: Vec<(usize, Vec<u8>)> = c.sent_frames.iter().map(|(k, v)| (*k, v.clone())).collect();
    let class = if bases.is_empty() { t.choose(2, "class_nobase") } else { 2 + t.choose(14, "class") };
    let pick_base = |t: &mut Tape| -> Vec<u8> {
        let (_, b) = &bases[t.choose(bases.len(), "base")];
        // A well-formed response to that request.
        match wire::decode(b) {
            Ok(mut f) => {
                for d in f.datagrams.iter_mut() {
                    d.wkc = 1;
                }
                wire::encode_response(&f)
            }
            Err(_) => b.clone(),
        }
    };
    match class {
        0 => {
            let n = t.choose(1601, "rand_len");
            ((0..n).map(|_| t.choose(256, "rand_byte") as u8).collect(), "random-bytes")
        }
        1 => {
            // EtherCAT-looking header followed by noise.
            let n = 16 + t.choose(200, "noise_len");
            let mut v = vec![0xffu8; 6];
            v.extend_from_slice(&wire::RETURN_MAC);
            v.extend_from_slice(&[0x88, 0xa4]);
            let l = t.choose(2048, "noise_eclen") as u16 | 0x1000;
            v.extend_from_slice(&l.to_le_bytes());
            while v.len() < n {
                v.push(t.choose(256, "noise_byte") as u8);
            }
            (v, "ethercat-noise")
        }
        2 => (pick_base(t), "valid-response"),
        3 => {
            let mut b = pick_base(t);
            let cut = t.choose(b.len() + 1, "cut");
            b.truncate(cut);
            (b, "truncated")
        }
        4 => {
            let mut b = pick_base(t);
            b[12] = t.choose(256, "ethertype_hi") as u8;
            b[13] = t.choose(256, "ethertype_lo") as u8;
            (b, "ethertype")
        }
        5 => {
            let mut b = pick_base(t);
            b[6..12].copy_from_slice(&wire::MASTER_MAC);
            (b, "own-source")
        }
        6 => {
            let mut b = pick_base(t);
            let l = t.choose(2048, "eclen") as u16;
            let ty = t.pick(&[1u16, 0, 4, 5, 15, 2], "ectype");
            let h = l | (ty << 12) | ((t.choose(2, "ecres") as u16) << 11);
            b[14..16].copy_from_slice(&h.to_le_bytes());
            (b, "ecat-header")
        }
        7 => {
            let mut b = pick_base(t);
            b[17] = t.choose(256, "index") as u8;
            (b, "index")
        }
        8 => {
            let mut b = pick_base(t);
            b[16] = t.choose(256, "cmd") as u8;
            (b, "command")
        }
        9 => {
            let mut b = pick_base(t);
            let l = t.choose(2048, "dglen") as u16 | ((t.choose(2, "dgmore") as u16) << 15) | ((t.choose(2, "dgcirc") as u16) << 14);
            b[22..24].copy_from_slice(&l.to_le_bytes());
            (b, "datagram-length")
        }
        10 => {
            let mut b = pick_base(t);
            let pad = 1 + t.choose(64, "pad");
            b.extend(std::iter::repeat(0).take(pad));
            (b, "padded")
        }
        11 => {
            // Longer than the slot can hold, with a header that says so.
            let mut b = pick_base(t);
            let extra = frame_len + t.choose(300, "oversize");
            b.extend((0..extra).map(|i| i as u8));
            let l = ((b.len() - 16).min(2047)) as u16 | 0x1000;
            b[14..16].copy_from_slice(&l.to_le_bytes());
            (b, "oversize")
        }
        12 => {
            // The request exactly as transmitted (an echo of our own frame).
            let (_, b) = &bases[t.choose(bases.len(), "echo_base")];
            (b.clone(), "self-echo")
        }
        13 => {
            let mut b = pick_base(t);
            let n = 1 + t.choose(4, "flips");
            for _ in 0..n {
                let i = t.choose(b.len(), "flip_at");
                b[i] ^= 1 << t.choose(8, "flip_bit");
            }
            (b, "bit-flips")
        }
        14 => {
            // EtherCAT length field smaller than the datagrams present.
            let mut b = pick_base(t);
            let real = (b.len() - 16) as u16;
            let l = t.choose(real as usize + 1, "short_eclen") as u16 | 0x1000;
            b[14..16].copy_from_slice(&l.to_le_bytes());
            (b, "ecat-length-short")
        }
        _ => {
            let mut b = pick_base(t);
            // Very short: cut inside the Ethernet/EtherCAT/datagram headers.
            let cut = t.choose(27.min(b.len()) + 1, "cut_head");
            b.truncate(cut);
            (b, "truncated-headers")
        }
    }
}

/// Feed a batch of generated frames to the receive side with the slots as they are now.
fn inject_batch(c: &mut C05Ctx<'_>, rx: &mut PduRx<'static>) {
    let n = 8 + c.t.choose(25, "batch");
    for _ in 0..n {
        if !c.out.violations.is_empty() {
            return;
        }
        let (bytes, class) = gen_frame(c);
        *c.classes.entry(class).or_insert(0) += 1;
        let before = snapshot(c.pl);
        let res = catch_unwind(AssertUnwindSafe(|| rx.receive_frame(&bytes)));
        let after = snapshot(c.pl);
        c.injected += 1;
        c.th.add_bytes(&bytes);
        let changed: Vec<usize> = (0..before.len()).filter(|i| before[*i] != after[*i]).collect();
        let states: Vec<&str> = before.iter().map(|s| state_name(s.state)).collect();
        let show = |b: &[u8]| format!("{:02x?}", &b[..b.len().min(48)]);
        let res = match res {
            Err(p) => {
                let msg = p.downcast_ref::<&str>().map(|s| s.to_string()).or_else(|| p.downcast_ref::<String>().cloned()).unwrap_or_default();
                c.out.violations.push(viol("rx-panic", format!("receive_frame panicked ({}) on a {} frame of {} bytes {} with slot states {:?}", msg, class, bytes.len(), show(&bytes), states)));
                return;
            }
            Ok(r) => r,
        };
        c.th.add(match res {
            Ok(ReceiveAction::Processed) => 1,
            Ok(ReceiveAction::Ignored) => 2,
            Err(_) => 3,
        });
        // What does the independent decoder say about this frame?
        let is_ecat = bytes.len() >= 14 && bytes[12] == 0x88 && bytes[13] == 0xa4;
        let own = bytes.len() >= 12 && bytes[6..12] == wire::MASTER_MAC;
        match res {
            Ok(ReceiveAction::Processed) => {
                c.accepted += 1;
                if !is_ecat || own {
                    c.out.violations.push(viol(
                        "stranger-accepted",
                        format!("a {} frame (ethercat {}, own source {}) was processed: {}", class, is_ecat, own, show(&bytes)),
                    ));
                    return;
                }
                if changed.len() != 1 {
                    c.out.violations.push(viol(
                        "accept-touched-other-slots",
                        format!("accepting a {} frame changed slots {:?} (states before {:?})", class, changed, states),
                    ));
                    return;
                }
                let s = changed[0];
                let idx = bytes[17];
                if before[s].state != 4 || before[s].first_pdu != idx as u16 {
                    c.out.violations.push(viol(
                        "accepted-into-wrong-slot",
                        format!("frame with first index {} was accepted into slot {} which was {} with key {:#06x}", idx, s, state_name(before[s].state), before[s].first_pdu),
                    ));
                    return;
                }
                if after[s].state != 6 {
                    c.out.violations.push(viol("accepted-wrong-state", format!("slot {} is {} after acceptance", s, state_name(after[s].state))));
                    return;
                }
                let eclen = (u16::from_le_bytes([bytes[14], bytes[15]]) & 0x7ff) as usize;
                let want = &bytes[16..16 + eclen];
                if after[s].bytes[16..16 + eclen] != *want {
                    c.out.violations.push(viol("accepted-wrong-payload", format!("slot {} does not hold the accepted frame's {} payload bytes", s, eclen)));
                    return;
                }
                if after[s].bytes[..16] != before[s].bytes[..16] || after[s].bytes[16 + eclen..] != before[s].bytes[16 + eclen..] {
                    c.out.violations.push(viol("accept-wrote-outside-payload", format!("accepting a {} byte payload into slot {} changed bytes outside it", eclen, s)));
                    return;
                }
                c.matched_sent += 1;
            }
            Ok(ReceiveAction::Ignored) | Err(_) => {
                if !changed.is_empty() {
                    let s = changed[0];
                    c.out.violations.push(viol(
                        "rejected-frame-altered-slot",
                        format!(
                            "a {} frame of {} bytes was {:?} yet slot {} changed: state {} -> {}, key {:#06x} -> {:#06x}, {} buffer bytes differ (slot states before {:?}); frame {}",
                            class,
                            bytes.len(),
                            res,
                            s,
                            state_name(before[s].state),
                            state_name(after[s].state),
                            before[s].first_pdu,
                            after[s].first_pdu,
                            before[s].bytes.iter().zip(after[s].bytes.iter()).filter(|(a, b)| a != b).count(),
                            states,
                            show(&bytes)
                        ),
                    ));
                    return;
                }
                if (!is_ecat || own) && bytes.len() >= 14 && res != Ok(ReceiveAction::Ignored) {
                    c.out.violations.push(viol(
                        "stranger-not-ignored",
                        format!("a {} frame (ethercat {}, own source {}) gave {:?} instead of being ignored: {}", class, is_ecat, own, res, show(&bytes)),
                    ));
                    return;
                }
            }
        }
        if c.samples.len() < 3 {
            c.samples.push(json!({"class": class, "len": bytes.len(), "result": format!("{:?}", res), "slot_states": states, "frame_head": show(&bytes)}));
        }
    }
}

/// Bring slots `k..` into their target states (recursively, because a slot in `Sending` exists only
/// while we are inside the send closure), then inject.
#[allow(clippy::too_many_arguments)]
fn reach_and_inject(
    c: &mut C05Ctx<'_>,
    tx: &mut PduTx<'static>,
    rx: &mut PduRx<'static>,
    targets: &[Target],
    frames: &mut Vec<Option<CreatedFrame<'static>>>,
    futs: &mut Vec<Option<Pin<Box<ReceiveFrameFut<'static>>>>>,
    held: &mut Vec<ReceivedFrame<'static>>,
    phase: usize,
) {
    // Phase 0: everything that needs a complete trip through TX, one at a time.
    if phase == 0 {
        for (i, tg) in targets.iter().enumerate() {
            match tg {
                Target::NoneAfterBuild => {
                    frames[i] = None; // drops the CreatedFrame
                }
                Target::NoneStale => {
                    if let Some(f) = frames[i].take() {
                        let fut = verif::mark_sendable(f, c.pl, NO_DEADLINE, 0);
                        drop(fut); // abandon: the slot returns to None but keeps its index
                    }
                }
                Target::Sent | Target::RxDone | Target::RxProcessing => {
                    if let Some(f) = frames[i].take() {
                        let mut fut = Box::pin(verif::mark_sendable(f, c.pl, NO_DEADLINE, 0));
                        let mut sent = Vec::new();
                        if let Some(sf) = tx.next_sendable_frame() {
                            let _ = sf.send_blocking(|b| {
                                sent = b.to_vec();
                                Ok(b.len())
                            });
                        }
                        if *tg == Target::Sent {
                            c.sent_frames.insert(i, sent.clone());
                        }
                        if *tg != Target::Sent {
                            if let Ok(mut fr) = wire::decode(&sent) {
                                for d in fr.datagrams.iter_mut() {
                                    d.wkc = 1;
                                }
                                let _ = rx.receive_frame(&wire::encode_response(&fr));
                            }
                            // Keep the request bytes as a mutation base: its index is no longer awaited.
                            c.sent_frames.insert(i, sent.clone());
                        }
                        if *tg == Target::RxProcessing {
                            if let Poll::Ready(Ok(rf)) = poll_once(fut.as_mut()) {
                                held.push(rf);
                            }
                            futs[i] = None;
                        } else {
                            futs[i] = Some(fut);
                        }
                    }
                }
                _ => {}
            }
        }
        return reach_and_inject(c, tx, rx, targets, frames, futs, held, 1);
    }
    // Phase 1..: one nested send closure per `Sending` slot.
    let next_sending = targets.iter().enumerate().position(|(i, t)| *t == Target::Sending && frames[i].is_some());
    if let Some(i) = next_sending {
        let f = frames[i].take().unwrap();
        let fut = Box::pin(verif::mark_sendable(f, c.pl, NO_DEADLINE, 0));
        futs[i] = Some(fut);
        if let Some(sf) = tx.next_sendable_frame() {
            // `tx` is borrowed by the frame being sent; a second handle is not available, which is
            // fine: nothing below needs it except further `Sending` slots, which we therefore limit
            // to one per configuration.
            let mut inner_done = false;
            let _ = sf.send_blocking(|b| {
                c.sent_frames.insert(i, b.to_vec());
                finish_and_inject(c, rx, targets, frames, futs);
                inner_done = true;
                Ok(b.len())
            });
            let _ = inner_done;
        }
        return;
    }
    finish_and_inject(c, rx, targets, frames, futs);
}

fn finish_and_inject(
    c: &mut C05Ctx<'_>,
    rx: &mut PduRx<'static>,
    targets: &[Target],
    frames: &mut Vec<Option<CreatedFrame<'static>>>,
    futs: &mut Vec<Option<Pin<Box<ReceiveFrameFut<'static>>>>>,
) {
    // Finally the slots that stay Sendable (nobody will transmit them).
    for (i, tg) in targets.iter().enumerate() {
        if *tg == Target::Sendable {
            if let Some(f) = frames[i].take() {
                futs[i] = Some(Box::pin(verif::mark_sendable(f, c.pl, NO_DEADLINE, 0)));
            }
        }
    }
    // Check that the targets were reached (harness sanity; a mismatch is a harness error, not a finding).
    let snap = snapshot(c.pl);
    for (i, tg) in targets.iter().enumerate() {
        let want = match tg {
            Target::Fresh | Target::NoneAfterBuild | Target::NoneStale => 0,
            Target::Created => 1,
            Target::Sendable => 2,
            Target::Sending => 3,
            Target::Sent => 4,
            Target::RxDone => 6,
            Target::RxProcessing => 7,
        };
        if snap[i].state != want {
            c.out.probes.insert("harness_state_mismatch".into(), 1);
        }
    }
    inject_batch(c, rx);
}

pub fn c05_case(run_seed: u64, nonce: u64, replay: Option<Vec<u32>>) -> CaseOutcome {
    let mut t = match replay {
        Some(v) => Tape::replay(v),
        None => Tape::search(run_seed),
    };
    // A panic anywhere in the code under test is a violation of this run, not a harness crash.
    match catch_unwind(AssertUnwindSafe(|| c05_body(&mut t, nonce))) {
        Ok(out) => out,
        Err(p) => {
            let msg = p.downcast_ref::<&str>().map(|s| s.to_string()).or_else(|| p.downcast_ref::<String>().cloned()).unwrap_or_else(|| "panic".into());
            let mut out = CaseOutcome::default();
            out.tape = t.consumed_values();
            out.nontrivial = true;
            out.violations.push(viol("panic", format!("the code under test panicked: {}", msg)));
            out
        }
    }
}

fn c05_body(t: &mut Tape, nonce: u64) -> CaseOutcome {
    let slots = t.pick(&[2usize, 1, 4], "slots");
    let frame_len = t.pick(&[64usize, 28, 40, 48, 100, 128, 60, 256], "frame_len");
    let store = storage::make(slots, frame_len).expect("menu");
    let (mut tx, mut rx, pl) = store.split();
    let pl: &'static PduLoop<'static> = Box::leak(Box::new(pl));
    let cap = frame_len - 16;
    let mut out = CaseOutcome::default();

    // Choose target states. At most one slot is held in `Sending` (one TX handle).
    let used = 1 + t.choose(slots, "used");
    let mut targets: Vec<Target> = Vec::new();
    let mut have_sending = false;
    for _ in 0..used {
        let mut tg = t.pick(&TARGETS, "target");
        if tg == Target::Sending {
            if have_sending {
                tg = Target::Sent;
            }
            have_sending = true;
        }
        targets.push(tg);
    }
    while targets.len() < slots {
        targets.push(Target::Fresh);
    }

    // Allocate and build all used frames in slot order.
    let mut frames: Vec<Option<CreatedFrame<'static>>> = Vec::new();
    for i in 0..used {
        let Ok(mut f) = verif::alloc_frame(pl) else { break };
        let n_dg = 1 + t.choose(3, "n_dg");
        let mut room = cap;
        for d in 0..n_dg {
            if room < 12 {
                break;
            }
            let l = t.choose((room - 12).min(24) + 1, "dg_len");
            let kind = t.pick(&ALL_KINDS[..10], "kind");
            let key = 0x3000_0000u32 | ((i as u32) << 8) | d as u32;
            let (cmd, _) = kind.command(key);
            let data = payload_bytes(nonce, key, l);
            if verif::push_pdu(&mut f, cmd, &data, None).is_ok() {
                room -= 12 + l;
            }
        }
        frames.push(Some(f));
    }
    while frames.len() < slots {
        frames.push(None);
    }
    let mut futs: Vec<Option<Pin<Box<ReceiveFrameFut<'static>>>>> = (0..slots).map(|_| None).collect();
    let mut held: Vec<ReceivedFrame<'static>> = Vec::new();

    let mut ctx = C05Ctx {
        t: &mut *t,
        pl,
        nonce,
        out: &mut out,
        th: TraceHash::default(),
        sent_frames: BTreeMap::new(),
        injected: 0,
        accepted: 0,
        matched_sent: 0,
        classes: BTreeMap::new(),
        samples: Vec::new(),
    };
    reach_and_inject(&mut ctx, &mut tx, &mut rx, &targets, &mut frames, &mut futs, &mut held, 0);
    let (th, injected, accepted, classes, samples) = (ctx.th, ctx.injected, ctx.accepted, ctx.classes.clone(), ctx.samples.clone());
    drop(ctx);

    // Tear down in an order that cannot trip over the states we left behind. A slot the hostile
    // frames pushed into a state its handle does not expect would make a destructor panic; that is a
    // consequence of an already reported violation, so handles are only dropped on clean runs.
    if out.violations.is_empty() {
        let r = catch_unwind(AssertUnwindSafe(|| {
            drop(held);
            drop(futs);
            drop(frames);
        }));
        if r.is_err() {
            out.violations.push(viol("teardown-panic", "dropping the held frames/futures after the injections panicked".into()));
        }
    } else {
        std::mem::forget(held);
        std::mem::forget(futs);
        std::mem::forget(frames);
    }

    out.trace_hash = th.0;
    out.tape = t.consumed_values();
    out.steps = injected;
    out.nontrivial = injected > 0 && targets.iter().any(|t| *t != Target::Fresh);
    for (k, v) in classes {
        out.faults.insert(k.to_string(), v);
    }
    out.probes.insert("frames_injected".into(), injected);
    out.probes.insert("frames_accepted".into(), accepted);
    for tg in &targets {
        *out.probes.entry(format!("slot_state_{:?}", tg)).or_insert(0) += 1;
    }
    out.describe = json!({"slots": slots, "frame_len": frame_len, "targets": targets.iter().map(|t| format!("{:?}", t)).collect::<Vec<_>>(), "injections": samples});
    unsafe { drop(Box::from_raw(pl as *const PduLoop<'static> as *mut PduLoop<'static>)) };
    drop(store);
    out
}

pub fn run_c04(tier: &str, seed: u64, workers: usize) -> i32 {
    let mut pr = PropertyRun::new("C04", tier, seed, workers);
    pr.real_components = vec!["ethercrab::pdu_loop::frame_element::{created_frame, frame_box, sendable_frame}, frame/PDU headers, Command::pack/code — real code"];
    pr.stub_components = vec!["NIC (send closure), the responses used to dirty slots", "independent frame encoder (the oracle)"];
    pr.assumptions = vec![
        "frame sizes 28..=1514 from the storage menu (every size 28..=128, 40 larger ones)".into(),
        "the wire monitor of every other check (C01-C03, C06-C18, C20) applies the well-formedness clauses to every frame those scenarios transmit; counts are in their evidence files".into(),
    ];
    let (runs, wall) = if tier == "thorough" { (60_000_000u64, 600u64) } else { (1_500_000u64, 40u64) };
    pr.replay_witnesses("push-programs", &c04_case);
    pr.batch(
        "push-programs",
        runs,
        wall,
        "one run = 1..3 push programs (1..12 pushes each over all 11 command kinds, data lengths around the remaining capacity, overrides below/equal/above, fill-the-rest pushes of 0..2*capacity) into a drawn frame size, each after dirtying the slot (abandoned build, abandoned in flight, or a full response of ones); accept/refuse decisions, reported counts and every transmitted byte are compared with an independent encoder; non-trivial = a frame was compared and at least one boundary event (refusal, cut or empty fill) occurred; distinct = distinct hash of the accepted datagram bytes",
        &c04_case,
    );
    // The same clauses for every frame handed to the driver while deadlines expire, requests are
    // retried or abandoned at any instant and sends fail: the fibre-engine scenario of C06 with only
    // the wire monitor (frame well-formed, says what was asked, unchanged while the driver holds it,
    // retransmissions identical) and the result oracles active.
    let thorough = tier == "thorough";
    let f = move |rs: u64, nonce: u64, replay: Option<Vec<u32>>| crate::c_pdu::case(crate::pduscen::Prop::C04, thorough, rs, nonce, replay);
    let (runs, wall) = if thorough { (10_000_000u64, 300u64) } else { (600_000u64, 20u64) };
    pr.replay_witnesses("wire-monitor-under-faults", &f);
    pr.batch(
        "wire-monitor-under-faults",
        runs,
        wall,
        "one run = 1..3 application fibres, TX and RX fibres on 1..4 slots with deadlines, retries, loss, send errors, partial sends, duplicates, premature copies and abandonment at any instant; every frame the send closure is given is decoded independently (well-formedness clauses), compared with what its request asked for, re-read while the driver holds it, and retransmissions are compared with the first transmission; non-trivial = a fault fired and at least two frames were transmitted; distinct = hash of the full event trace",
        &f,
    );
    pr.finish()
}

pub fn run_c05(tier: &str, seed: u64, workers: usize) -> i32 {
    let mut pr = PropertyRun::new("C05", tier, seed, workers);
    pr.real_components = vec!["ethercrab::pdu_loop::{pdu_rx, storage, frame_element/*}, ethernet, frame header parsing — real code"];
    pr.stub_components = vec!["frame generator (random + structure-aware mutation of real responses)", "TX side held inside its send closure to keep a slot in Sending"];
    pr.assumptions = vec!["at most one slot per configuration is in Sending (one TX handle exists)".into()];
    let (runs, wall) = if tier == "thorough" { (40_000_000u64, 600u64) } else { (400_000u64, 40u64) };
    pr.replay_witnesses("hostile-frames", &c05_case);
    pr.batch(
        "hostile-frames",
        runs,
        wall,
        "one run = 1..4 slots driven into a drawn combination of {fresh, None after build, None with stale index, Created, Sendable, Sending, Sent, RxDone, RxProcessing}, then 8..32 generated frames (16 classes: random, noise behind an EtherCAT header, valid, truncated at every point, each header field perturbed, padded, oversized, echoes, bit flips) fed to receive_frame with a full snapshot of every slot before and after; non-trivial = at least one slot was not fresh; distinct = distinct hash of injected bytes and results",
        &c05_case,
    );
    pr.finish()
}
