//! Stackful fibres (corosensei) for sub-poll interleavings: each simulated party is a coroutine on
//! the worker's OS thread; the `cfg(ethercrab_verif)` hook suspends the running fibre at every
//! shared-state access so that the seeded scheduler decides who continues.

use corosensei::stack::DefaultStack;
use corosensei::{Coroutine, CoroutineResult, Yielder};
use std::any::Any;
use std::cell::{Cell, RefCell};
use std::panic::{catch_unwind, AssertUnwindSafe};

type Y = Yielder<(), ()>;

thread_local! {
    static CUR_YIELDER: Cell<*const Y> = const { Cell::new(std::ptr::null()) };
    static CUR_ID: Cell<usize> = const { Cell::new(usize::MAX) };
    static NO_YIELD: Cell<bool> = const { Cell::new(false) };
    static STACKS: RefCell<Vec<DefaultStack>> = const { RefCell::new(Vec::new()) };
}

const STACK_SIZE: usize = 256 * 1024;

/// Id of the fibre currently executing on this thread, if any.
pub fn current() -> Option<usize> {
    let id = CUR_ID.with(|c| c.get());
    if id == usize::MAX {
        None
    } else {
        Some(id)
    }
}

/// Suspend the current fibre and return to the scheduler. No-op outside a fibre or while yields are
/// inhibited (teardown).
pub fn suspend() {
    if NO_YIELD.with(|n| n.get()) {
        return;
    }
    let y = CUR_YIELDER.with(|c| c.get());
    if y.is_null() {
        return;
    }
    // SAFETY: the pointer was installed by `Fibre::resume` for the coroutine that is executing right
    // now on this thread, and the `Yielder` lives as long as that coroutine's body.
    unsafe { (*y).suspend(()) };
}

pub fn set_no_yield(v: bool) {
    NO_YIELD.with(|n| n.set(v));
}

pub struct Fibre {
    co: Option<Coroutine<(), (), (), DefaultStack>>,
    yielder: *const Y,
    pub id: usize,
    pub done: bool,
}

impl Fibre {
    /// Create a fibre. The closure may borrow non-`'static` data; the caller guarantees that the
    /// fibre is dropped before anything it borrows.
    ///
    /// # Safety
    /// See above: `f` must not outlive its borrows.
    pub unsafe fn new<'a>(id: usize, f: impl FnOnce() + 'a) -> Self {
        let stack = STACKS
            .with(|s| s.borrow_mut().pop())
            .unwrap_or_else(|| DefaultStack::new(STACK_SIZE).expect("stack"));
        let co = unsafe {
            Coroutine::with_stack_unchecked(stack, move |y: &Y, _: ()| {
                // Publish the yielder for the first run segment; `resume` re-installs it each time.
                CUR_YIELDER.with(|c| c.set(y as *const Y));
                f();
            })
        };
        Fibre {
            co: Some(co),
            yielder: std::ptr::null(),
            id,
            done: false,
        }
    }

    /// Run the fibre until it suspends or finishes. A panic inside the fibre is caught and returned.
    pub fn resume(&mut self) -> Result<bool, Box<dyn Any + Send>> {
        assert!(!self.done);
        let co = self.co.as_mut().unwrap();
        let prev_y = CUR_YIELDER.with(|c| c.replace(self.yielder));
        let prev_id = CUR_ID.with(|c| c.replace(self.id));
        let res = catch_unwind(AssertUnwindSafe(|| co.resume(())));
        // Remember this fibre's yielder (set by the body on first entry) for the next resume.
        self.yielder = CUR_YIELDER.with(|c| c.replace(prev_y));
        CUR_ID.with(|c| c.set(prev_id));
        match res {
            Ok(CoroutineResult::Yield(())) => Ok(false),
            Ok(CoroutineResult::Return(())) => {
                self.done = true;
                self.recycle();
                Ok(true)
            }
            Err(p) => {
                self.done = true;
                // The coroutine unwound completely; its stack can be reused.
                self.recycle();
                Err(p)
            }
        }
    }

    fn recycle(&mut self) {
        if let Some(co) = self.co.take() {
            if co.done() {
                let stack = co.into_stack();
                STACKS.with(|s| {
                    let mut s = s.borrow_mut();
                    if s.len() < 16 {
                        s.push(stack);
                    }
                });
            } else {
                drop(co);
            }
        }
    }
}

impl Fibre {
    /// Abandon a suspended fibre *without* running the destructors of what lives on its stack, and
    /// recycle the stack. Used when a run ended abnormally: a destructor that panics during a
    /// forced unwind would abort the process. Whatever the fibre's frames own on the heap leaks.
    pub fn discard(mut self) {
        if let Some(mut co) = self.co.take() {
            if !co.done() {
                // SAFETY: the coroutine is never resumed again and nothing outside refers to objects
                // on its stack (wakers and timers only hold heap-allocated flags).
                unsafe { co.force_reset() };
            }
            let stack = co.into_stack();
            STACKS.with(|s| {
                let mut s = s.borrow_mut();
                if s.len() < 16 {
                    s.push(stack);
                }
            });
        }
    }
}

impl Drop for Fibre {
    fn drop(&mut self) {
        if let Some(mut co) = self.co.take() {
            if co.started() && !co.done() {
                // Unwind the suspended fibre so destructors of futures it holds run (they are part
                // of the history); hooks must not try to suspend while this happens.
                let prev = NO_YIELD.with(|n| n.replace(true));
                let prev_id = CUR_ID.with(|c| c.replace(self.id));
                let _ = catch_unwind(AssertUnwindSafe(|| co.force_unwind()));
                CUR_ID.with(|c| c.set(prev_id));
                NO_YIELD.with(|n| n.set(prev));
            }
            if !co.done() && !co.started() {
                // Never ran: nothing on its stack.
                unsafe { co.force_reset() };
            }
            if co.done() || !co.started() {
                if co.done() {
                    let stack = co.into_stack();
                    STACKS.with(|s| {
                        let mut s = s.borrow_mut();
                        if s.len() < 16 {
                            s.push(stack);
                        }
                    });
                }
            } else {
                std::mem::forget(co);
            }
        }
    }
}
