//! C17 (topology and propagation delays from port time stamps) and C18 (DC sync set-up and cycle
//! arithmetic).

use crate::c_init::{sim_error_violation, viol, Groups};
use crate::checks::PropertyRun;
use crate::esc::{Segment, Topology};
use crate::netgen::{self, GenCfg};
use crate::rng::TraceHash;
use crate::runner::CaseOutcome;
use crate::tape::Tape;
use crate::wire;
use crate::world::{now_ns, World, WorldCfg};
use ethercrab::error::{DistributedClockError, Error};
use ethercrab::subdevice_group::DcConfiguration;
use ethercrab::{DcSync, SubDeviceGroup};
use serde_json::json;
use std::cell::Cell;
use std::time::Duration;

fn tape_of(rs: u64, replay: Option<Vec<u32>>) -> Tape {
    match replay {
        Some(v) => Tape::replay(v),
        None => Tape::search(rs),
    }
}

thread_local! {
    static LAST_NOW: Cell<Option<u64>> = const { Cell::new(None) };
    static NOW_OVERRIDE: Cell<Option<u64>> = const { Cell::new(None) };
}

/// The `now` closure handed to `init`: records the value it returned.
fn now_recorded() -> u64 {
    let v = NOW_OVERRIDE.with(|c| c.get()).unwrap_or_else(now_ns);
    LAST_NOW.with(|c| c.set(Some(v)));
    v
}

/// Generate a tree in EtherCAT processing order (pre-order, children on ports 3, 1, 2).
pub fn gen_tree(t: &mut Tape, n: usize, max_children: usize) -> Vec<Option<(usize, u8)>> {
    let mut parent: Vec<Option<(usize, u8)>> = vec![None];
    fn build(t: &mut Tape, parent: &mut Vec<Option<(usize, u8)>>, node: usize, n: usize, max_children: usize, depth: usize) {
        if parent.len() >= n {
            return;
        }
        let remaining = n - parent.len();
        let k = if depth > 30 { 1.min(remaining) } else { t.choose_biased(max_children.min(remaining) + 1, 15, 100, "children").max(if node == 0 && remaining > 0 { 1 } else { 0 }) };
        // Which ports: for a single child usually port 1 (a plain two-port device).
        let mut ports: Vec<u8> = match k {
            0 => vec![],
            1 => vec![t.pick(&[1u8, 1, 1, 3, 2], "port1")],
            2 => t.pick(&[[3u8, 1], [3, 2], [1, 2]], "port2").to_vec(),
            _ => vec![3, 1, 2],
        };
        ports.sort_by_key(|p| match p {
            3 => 0,
            1 => 1,
            _ => 2,
        });
        for p in ports {
            if parent.len() >= n {
                break;
            }
            let child = parent.len();
            parent.push(Some((node, p)));
            build(t, parent, child, n, max_children, depth + 1);
        }
    }
    build(t, &mut parent, 0, n, max_children, 0);
    // If the recursion stopped early (leaves everywhere), hang the rest off the last device as a chain.
    while parent.len() < n {
        let last = parent.len() - 1;
        parent.push(Some((last, 1)));
    }
    parent
}

pub fn c17_case(rs: u64, _nonce: u64, replay: Option<Vec<u32>>) -> CaseOutcome {
    let mut t = tape_of(rs, replay);
    let mut out = CaseOutcome::default();
    let n = 1 + t.choose(24, "n_devices");
    let shape = t.choose(4, "shape"); // 0 chain, 1 forks, 2 crosses / nested, 3 scripted impossible reports
    let max_children = match shape {
        0 => 1,
        1 => 2,
        _ => 3,
    };
    let homogeneous = t.flag(60, 100, "homogeneous");
    let all_dc = t.flag(50, 100, "all_dc");
    let cfg = GenCfg {
        mailbox_pct: 10,
        pd_pct: 0,
        dc_pct: if all_dc { 100 } else { 60 },
        name_pct: 30,
        mailbox_sizes: vec![64],
        sii_opts: crate::esc::sii::GenOpts { max_strings: 2, max_string_len: 12, allow_unknown_categories: false, ..Default::default() },
        ..GenCfg::default()
    };
    let (specs, mut seg) = netgen::gen_network(&mut t, &cfg, n);
    let parent = if shape == 0 { (0..n).map(|i| if i == 0 { None } else { Some((i - 1, 1u8)) }).collect() } else { gen_tree(&mut t, n, max_children) };
    let fwd_common = 50 + t.choose(400, "fwd_common") as u64;
    let link_common = 10 + t.choose(1990, "link_common") as u64;
    seg.topo = Topology {
        parent: parent.clone(),
        link_delay: (0..n).map(|_| if homogeneous { link_common } else { 10 + t.choose(1990, "link") as u64 }).collect(),
        fwd_delay: (0..n).map(|_| if homogeneous { fwd_common } else { 40 + t.choose(600, "fwd") as u64 }).collect(),
    };
    seg.apply_topology_ports();
    // A junction without DC support has no port times: what lies behind which of its ports cannot
    // be measured by anybody. Junction devices (couplers) are DC capable here; devices with at most
    // two ports may lack DC.
    // In a separate class (gen >= 2) junctions may lack DC support all the same: nothing can be
    // said about exact delays then, but the tree, the ports, the offsets, the reference clock and
    // "never decreases in frame-processing order" are still required.
    let non_dc_junctions = crate::tape::gen() >= 2 && !all_dc && shape != 0 && shape != 3 && t.flag(30, 100, "non_dc_junctions");
    let mut specs = specs;
    for i in 0..n {
        if non_dc_junctions {
            break;
        }
        if seg.devices[i].port_open.iter().filter(|p| **p).count() >= 3 && !specs[i].dc_supported() {
            specs[i].support_flags |= 0x0004 | 0x0100;
            let f = specs[i].support_flags;
            seg.devices[i].mem[0x0008..0x000a].copy_from_slice(&f.to_le_bytes());
            seg.devices[i].dc_supported = true;
        }
    }
    // Local clocks: arbitrary offsets. In one class the offset is chosen so that the device's 32 bit
    // counter wraps around the time the latching frame passes (the frame is sent a few hundred
    // microseconds of simulated time after start: the window is scanned in 1 us steps).
    let wrap_device = t.choose(n, "wrap_device");
    let wrap_class = t.flag(35, 100, "wrap_class");
    if wrap_class {
        // The wrap falls somewhere inside the frame's trip through the segment.
        let span: u64 = 2 * (0..n).map(|k| seg.topo.link_delay[k] + 2 * seg.topo.fwd_delay[k]).sum::<u64>() + 1;
        seg.wrap_after_latch = Some((wrap_device, t.choose(span.min(u32::MAX as u64) as usize, "wrap_delta") as u64));
    }
    for (i, d) in seg.devices.iter_mut().enumerate() {
        d.clock_offset = match t.choose(4, "clock_class") {
            0 => 0,
            1 => 0xffff_f000i128 + t.choose(0x2000, "near_wrap") as i128,
            2 => t.bits32("clock_lo") as i128,
            _ => ((t.bits32("clock_hi") as i128) << 20) + t.bits32("clock_lo2") as i128,
        };
        let _ = i;
    }
    let scripted = shape == 3;
    if scripted {
        // Reports that cannot come from a tree: link bits and port times are overridden below, after
        // generation, by editing what the devices expose.
        for d in seg.devices.iter_mut() {
            if t.flag(40, 100, "script_ports") {
                let bits = t.choose(16, "port_bits");
                d.port_open = [bits & 1 != 0, bits & 2 != 0, bits & 4 != 0, bits & 8 != 0];
            }
        }
    }
    let wcfg = WorldCfg {
        static_sync_iterations: 2,
        frame_len: 1100,
        ..WorldCfg::default()
    };
    let mut w = World::new(&wcfg, seg, t);
    w.sim.seg.record = true;
    let md = w.md();
    LAST_NOW.with(|c| c.set(None));
    NOW_OVERRIDE.with(|c| c.set(None));
    let res = w.sim.block_on(md.init_single_group::<32, 8>(now_recorded));
    let mut th = TraceHash::default();
    th.add(n as u64);
    th.add(shape as u64);
    for p in &parent {
        th.add(p.map_or(0, |(a, b)| (a as u64) << 8 | b as u64));
    }
    for s in &specs {
        th.add(s.support_flags as u64);
    }
    let dc: Vec<usize> = (0..n).filter(|i| specs[*i].dc_supported()).collect();
    let shape_name = ["chain", "forks", "crosses/nested", "scripted port reports"][shape];
    out.describe = json!({"devices": n, "shape": shape_name, "parents": parent.iter().map(|p| p.map(|(a, b)| format!("{}:{}", a, b))).collect::<Vec<_>>(), "dc_devices": dc, "homogeneous_delays": homogeneous, "link_delay": w.sim.seg.topo.link_delay, "fwd_delay": w.sim.seg.topo.fwd_delay});
    out.trace_hash = th.0;
    out.nontrivial = dc.len() >= 2;
    out.probes.insert(format!("shape_{}", ["chain", "forks", "crosses_nested", "scripted"][shape]), 1);
    let nested = (0..n).any(|i| w.sim.seg.devices[i].port_open.iter().filter(|p| **p).count() >= 3 && parent[i].map_or(false, |(p, _)| w.sim.seg.devices[p].port_open.iter().filter(|x| **x).count() >= 3));
    out.probes.insert("nested_junctions".into(), nested as u64);
    let non_dc_junction_present = (0..n).any(|i| w.sim.seg.devices[i].port_open.iter().filter(|p| **p).count() >= 3 && !specs[i].dc_supported());
    out.probes.insert("junction_without_dc_support".into(), non_dc_junction_present as u64);
    out.probes.insert("non_dc_between_dc".into(), (dc.len() >= 2 && (dc[0]..*dc.last().unwrap()).any(|i| !specs[i].dc_supported())) as u64);
    let finish = |mut out: CaseOutcome, w: &World| {
        out.tape = w.sim.tape.consumed_values();
        out.steps = w.sim.stats.steps;
        out.sim_time_us = crate::clock::now();
        out
    };
    let group: SubDeviceGroup<32, 8> = match res {
        Err(e) => {
            let mut v = sim_error_violation(&format!("init on a {} topology", ["chain", "fork", "cross/nested", "scripted"][shape]), &e);
            if v.clause == "panic" {
                v.signature = format!("panic@{}", if scripted { "scripted-reports" } else if nested { "nested-junctions" } else { "tree" });
            }
            out.violations.push(v);
            return finish(out, &w);
        }
        Ok(Err(e)) => {
            if !scripted {
                let mut v = viol("init-failed", format!("init on a valid tree failed with {:?}", e));
                v.signature = format!("init-failed@{}", if nested { "nested-junctions" } else { "tree" });
                out.violations.push(v);
            }
            return finish(out, &w);
        }
        Ok(Ok(g)) => g,
    };
    if scripted {
        // Only the no-panic clause applies.
        drop(group);
        return finish(out, &w);
    }
    // Reference clock: the FRMW of static sync addresses the first DC capable device.
    let frmw_targets: Vec<u16> = w.sim.seg.log.iter().flat_map(|f| f.datagrams.iter()).filter(|d| d.cmd == wire::CMD_FRMW).map(|d| u16::from_le_bytes([d.addr[0], d.addr[1]])).collect();
    if let Some(&first) = dc.first() {
        if frmw_targets.is_empty() || frmw_targets.iter().any(|a| *a != 0x1000 + first as u16) {
            out.violations.push(viol("wrong-reference-clock", format!("static sync addressed {:04x?}; the first DC capable device is {:#06x}", frmw_targets, 0x1000 + first)));
        }
    } else if !frmw_targets.is_empty() {
        out.violations.push(viol("wrong-reference-clock", format!("static sync ran ({:04x?}) although no device supports DC", frmw_targets)));
    }
    let straddles = dc.iter().any(|&i| {
        let d = &w.sim.seg.devices[i];
        let ts: Vec<u32> = (0..4).filter(|p| d.port_open[*p]).map(|p| u32::from_le_bytes(d.mem[0x900 + 4 * p..0x904 + 4 * p].try_into().unwrap())).collect();
        ts.len() >= 2 && ts.iter().max().unwrap() - ts.iter().min().unwrap() > u32::MAX / 2
    });
    out.probes.insert("port_stamps_straddle_32bit_wrap".into(), straddles as u64);
    let master_time = LAST_NOW.with(|c| c.get());
    let chain = parent.iter().enumerate().all(|(i, p)| i == 0 || matches!(p, Some((q, _)) if *q == i - 1)) && (0..n).all(|i| w.sim.seg.devices[i].port_open.iter().filter(|x| **x).count() <= 2);
    let mut prev_delay: Option<(usize, u32)> = None;
    let reported: Vec<(u16, u32)> = group.iter(md).map(|sd| (sd.configured_address(), sd.propagation_delay())).collect();
    // Every SubDevice's delay is derived from its true upstream neighbour: the reconstructed parent
    // must be the device it is really attached to.
    for sd in group.iter(md) {
        let i = sd.configured_address().wrapping_sub(0x1000) as usize;
        let got = ethercrab::verif::subdevice_parent_index(&sd).map(|p| p as usize);
        let want = parent[i].map(|(p, _)| p);
        if got != want {
            out.violations.push(viol("wrong-parent", format!("device {} is attached to device {:?}; the reconstructed topology says {:?}", i, want, got)));
            break;
        }
    }
    for sd in group.iter(md) {
        let i = sd.configured_address().wrapping_sub(0x1000) as usize;
        let got = ethercrab::verif::subdevice_open_ports(&sd);
        let want = w.sim.seg.devices[i].port_open;
        if got != want {
            out.violations.push(viol("wrong-ports", format!("device {}: open ports recorded as {:?}, the device reports link on {:?} (port numbers 0..3)", i, got, want)));
            break;
        }
    }
    for &i in &dc {
        let d = &w.sim.seg.devices[i];
        let delay_reg = u32::from_le_bytes(d.mem[0x0928..0x092c].try_into().unwrap());
        let offset_reg = i64::from_le_bytes(d.mem[0x0920..0x0928].try_into().unwrap());
        let recv = u64::from_le_bytes(d.mem[0x0918..0x0920].try_into().unwrap());
        if let Some((_, pd)) = reported.iter().find(|(a, _)| *a == 0x1000 + i as u16) {
            if *pd != delay_reg {
                out.violations.push(viol("delay-register-mismatch", format!("device {}: propagation_delay() = {}, register 0x0928 holds {}", i, pd, delay_reg)));
            }
        }
        if let Some(mt) = master_time {
            let want = (mt as i64).wrapping_sub(recv as i64);
            if offset_reg != want {
                out.violations.push(viol("wrong-system-time-offset", format!("device {}: offset register {} != master time {} - latched receive time {} = {}", i, offset_reg, mt, recv, want)));
            }
        }
        if let Some((pi, pd)) = prev_delay {
            if delay_reg < pd {
                out.violations.push(viol("delay-decreases", format!("device {} has delay {} after device {} with {}", i, delay_reg, pi, pd)));
            }
        }
        prev_delay = Some((i, delay_reg));
        let truth = w.sim.seg.true_delay(dc[0], i);
        let hops = (i - dc[0]) as u64;
        let all_dc_between = (dc[0]..=i).all(|k| specs[k].dc_supported());
        if chain && homogeneous {
            let tol = hops + 1;
            if (delay_reg as i64 - truth as i64).unsigned_abs() > tol {
                let mut v = viol(
                    "chain-delay-wrong",
                    format!("pure chain with equal delays: device {} programmed {} ns, the true one-way delay from the first DC device ({}) is {} ns (tolerance {} ns)", i, delay_reg, dc[0], truth, tol),
                );
                let stamps: Vec<String> = (0..=i).map(|k| { let m = &w.sim.seg.devices[k].mem; format!("dev{} open {:?} p0={} p1={} p2={} p3={}", k, w.sim.seg.devices[k].port_open, u32::from_le_bytes(m[0x900..0x904].try_into().unwrap()), u32::from_le_bytes(m[0x904..0x908].try_into().unwrap()), u32::from_le_bytes(m[0x908..0x90c].try_into().unwrap()), u32::from_le_bytes(m[0x90c..0x910].try_into().unwrap())) }).collect();
                v.detail = format!("{}; port stamps: {:?}", v.detail, stamps);
                v.signature = format!("chain-delay-wrong@{}", if all_dc_between { "all-dc" } else { "non-dc-device-in-between" });
                out.violations.push(v);
            }
        } else {
            if homogeneous && all_dc && (delay_reg as i64 - truth as i64).unsigned_abs() <= hops + 1 {
                *out.probes.entry("tree_delay_exact".into()).or_insert(0) += 1;
            } else if homogeneous && all_dc {
                *out.probes.entry("tree_delay_inexact".into()).or_insert(0) += 1;
            }
        }
        if !out.violations.is_empty() {
            break;
        }
    }
    drop(group);
    finish(out, &w)
}

// ---------------------------------------------------------------------------------------------
// C18
// ---------------------------------------------------------------------------------------------

pub fn c18_case(rs: u64, _nonce: u64, replay: Option<Vec<u32>>) -> CaseOutcome {
    let mut t = tape_of(rs, replay);
    let mut out = CaseOutcome::default();
    let n = 1 + t.choose(8, "n_devices");
    let cfg = GenCfg {
        mailbox_pct: 10,
        pd_pct: 20,
        dc_pct: 70,
        name_pct: 20,
        mailbox_sizes: vec![64],
        sii_opts: crate::esc::sii::GenOpts { max_strings: 2, max_string_len: 12, allow_unknown_categories: false, ..Default::default() },
        ..GenCfg::default()
    };
    let (specs, seg) = netgen::gen_network(&mut t, &cfg, n);
    let syncs: Vec<DcSync> = (0..n)
        .map(|_| match t.choose(3, "dc_sync") {
            0 => DcSync::Disabled,
            1 => DcSync::Sync0,
            _ => DcSync::Sync01 { sync1_period: Duration::from_nanos(t.pick(&[500_000u64, 1, 1_000_000, 250_000], "sync1")) },
        })
        .collect();
    let big = |t: &mut Tape, label: &'static str| -> u64 {
        match t.choose(8, label) {
            0 => 1_000_000,
            1 => 1,
            2 => u32::MAX as u64,
            3 => u32::MAX as u64 + 1,
            4 => 1000,
            5 => 125_000,
            6 => (u32::MAX as u64) * 3,
            _ => 1 + t.bits32("big_any") as u64,
        }
    };
    let period = big(&mut t, "period").max(1);
    let delay = big(&mut t, "delay");
    let shift = big(&mut t, "shift");
    let wcfg = WorldCfg { static_sync_iterations: 0, ..WorldCfg::default() };
    let mut w = World::new(&wcfg, seg, t);
    let md = w.md();
    let mut group: SubDeviceGroup<8, 4096, crate::simlock::SimLock> = match w.sim.block_on(md.init::<8, SubDeviceGroup<8, 4096, crate::simlock::SimLock>>(now_ns, Default::default(), |g, _sd| Ok(g))) {
        Ok(Ok(g)) => g,
        Ok(Err(e)) => {
            out.violations.push(viol("init-failed", format!("{:?}", e)));
            out.tape = w.sim.tape.consumed_values();
            return out;
        }
        Err(e) => {
            out.violations.push(sim_error_violation("init", &e));
            out.tape = w.sim.tape.consumed_values();
            return out;
        }
    };
    for mut sd in group.iter_mut(md) {
        let i = sd.configured_address().wrapping_sub(0x1000) as usize;
        sd.set_dc_sync(syncs[i]);
    }
    let dc: Vec<usize> = (0..n).filter(|i| specs[*i].dc_supported()).collect();
    let reference = dc.first().copied();
    // The reference clock reads whatever we say.
    let ref_time = match w.sim.tape.choose(9, "ref_time_class") {
        0 => 0,
        1 => 1,
        2 => period - 1,
        3 => period,
        4 => u64::MAX,
        5 => u64::MAX - delay.min(u64::MAX),
        6 => u32::MAX as u64,
        7 => u32::MAX as u64 + 1,
        _ => ((w.sim.tape.bits32("ref_hi") as u64) << 32) | w.sim.tape.bits32("ref_lo") as u64,
    };
    if let Some(r) = reference {
        w.sim.seg.devices[r].systime_override = Some(ref_time);
    }
    for d in w.sim.seg.devices.iter_mut() {
        d.stats.reg_writes.clear();
    }
    let mut th = TraceHash::default();
    th.add(n as u64);
    th.add(period);
    th.add(delay);
    th.add(shift);
    th.add(ref_time);
    for (s, y) in specs.iter().zip(syncs.iter()) {
        th.add(s.support_flags as u64);
        th.add(match y {
            DcSync::Disabled => 0,
            DcSync::Sync0 => 1,
            DcSync::Sync01 { .. } => 2,
        });
    }
    out.trace_hash = th.0;
    out.nontrivial = reference.is_some();
    out.describe = json!({"devices": n, "dc_devices": dc, "dc_sync": syncs.iter().map(|s| format!("{}", s)).collect::<Vec<_>>(), "period_ns": period, "start_delay_ns": delay, "shift_ns": shift, "reference_time": ref_time});
    let conf = DcConfiguration {
        start_delay: Duration::from_nanos(delay),
        sync0_period: Duration::from_nanos(period),
        sync0_shift: Duration::from_nanos(shift),
    };
    let res = w.sim.block_on(group.configure_dc_sync(md, conf));
    let finish = |mut out: CaseOutcome, w: &World| {
        out.tape = w.sim.tape.consumed_values();
        out.steps = w.sim.stats.steps;
        out.sim_time_us = crate::clock::now();
        out
    };
    let in_range = period <= u32::MAX as u64 && delay <= u32::MAX as u64;
    out.probes.insert("out_of_range_period_or_delay".into(), !in_range as u64);
    out.probes.insert("no_reference_clock".into(), reference.is_none() as u64);
    let group = match res {
        Err(e) => {
            let mut v = sim_error_violation("configure_dc_sync", &e);
            v.detail = format!("{} (period {} ns, delay {} ns, reference time {})", v.detail, period, delay, ref_time);
            out.violations.push(v);
            return finish(out, &w);
        }
        Ok(Err(e)) => {
            if reference.is_none() {
                if e != Error::DistributedClock(DistributedClockError::NoReference) {
                    out.violations.push(viol("no-reference-error", format!("no DC capable device: configure_dc_sync failed with {:?}", e)));
                }
            } else if in_range && ref_time.checked_add(delay).is_some() {
                out.violations.push(viol("dc-config-failed", format!("configure_dc_sync(period {} ns, delay {} ns) failed with {:?}", period, delay, e)));
            }
            return finish(out, &w);
        }
        Ok(Ok(g)) => g,
    };
    if reference.is_none() {
        out.violations.push(viol("no-reference-error", "no DC capable device, yet configure_dc_sync succeeded".into()));
        return finish(out, &w);
    }
    if !in_range {
        out.violations.push(viol("out-of-range-accepted", format!("period {} ns / start delay {} ns beyond 32 bit nanoseconds were accepted", period, delay)));
        return finish(out, &w);
    }
    // Register writes per device.
    for i in 0..n {
        let d = &w.sim.seg.devices[i];
        let dc_writes: Vec<&(u16, Vec<u8>)> = d.stats.reg_writes.iter().filter(|(a, _)| (0x0980..0x09b0).contains(a)).collect();
        let participates = specs[i].dc_supported() && syncs[i] != DcSync::Disabled;
        if !participates {
            if !dc_writes.is_empty() {
                out.violations.push(viol("dc-sync-written-to-wrong-device", format!("device {} (DC {}, {}) received DC sync register writes {:04x?}", i, specs[i].dc_supported(), syncs[i], dc_writes.iter().map(|w| w.0).collect::<Vec<_>>())));
            }
            continue;
        }
        let start = u64::from_le_bytes(d.mem[0x0990..0x0998].try_into().unwrap());
        let cyc0 = u32::from_le_bytes(d.mem[0x09a0..0x09a4].try_into().unwrap());
        let cyc1 = u32::from_le_bytes(d.mem[0x09a4..0x09a8].try_into().unwrap());
        let act = d.mem[0x0981];
        if cyc0 as u64 != period {
            out.violations.push(viol("sync0-cycle-wrong", format!("device {}: SYNC0 cycle register {} != period {}", i, cyc0, period)));
        }
        match syncs[i] {
            DcSync::Sync01 { sync1_period } => {
                if cyc1 as u128 != sync1_period.as_nanos() || act != 0x07 {
                    out.violations.push(viol("sync1-config-wrong", format!("device {}: SYNC1 cycle {} activation {:#04x}; expected {} / 0x07", i, cyc1, act, sync1_period.as_nanos())));
                }
            }
            _ => {
                if act != 0x03 {
                    out.violations.push(viol("activation-wrong", format!("device {}: activation {:#04x}, expected 0x03 for SYNC0", i, act)));
                }
            }
        }
        if let Some(sum) = ref_time.checked_add(delay) {
            let lower = sum as i128 - period as i128;
            if start % period != 0 || !((start as i128) > lower && start <= sum) {
                out.violations.push(viol("start-time-wrong", format!("device {}: SYNC0 start {} with reference {} + delay {} and period {}: must be a multiple of the period in ({}, {}]", i, start, ref_time, delay, period, lower, sum)));
            }
        }
    }
    if !out.violations.is_empty() {
        return finish(out, &w);
    }
    // Cycle arithmetic over the whole range of reference times.
    let cycles = 2 + w.sim.tape.choose(5, "cycles");
    for _ in 0..cycles {
        let v = match w.sim.tape.choose(8, "cycle_time_class") {
            0 => 0,
            1 => u64::MAX,
            2 => u64::MAX - 1,
            3 => period,
            4 => period - 1,
            5 => period.wrapping_mul(1 + w.sim.tape.bits32("k") as u64),
            6 => u32::MAX as u64 + 1,
            _ => ((w.sim.tape.bits32("t_hi") as u64) << 32) | w.sim.tape.bits32("t_lo") as u64,
        };
        w.sim.seg.devices[reference.unwrap()].systime_override = Some(v);
        match w.sim.block_on(group.tx_rx_dc(md)) {
            Err(e) => {
                let mut x = sim_error_violation("tx_rx_dc", &e);
                x.detail = format!("{} (reference time {}, period {}, shift {})", x.detail, v, period, shift);
                out.violations.push(x);
            }
            Ok(Err(e)) => out.violations.push(viol("cycle-failed", format!("tx_rx_dc failed with {:?}", e))),
            Ok(Ok(r)) => {
                let off = v % period;
                let wait = (period - off) as u128 + shift as u128;
                if r.extra.dc_system_time != v || r.extra.cycle_start_offset.as_nanos() != off as u128 || r.extra.next_cycle_wait.as_nanos() != wait {
                    out.violations.push(viol(
                        "cycle-arithmetic-wrong",
                        format!("reference time {} period {} shift {}: reported time {}, offset {} ns, wait {} ns; expected offset {} ns, wait {} ns", v, period, shift, r.extra.dc_system_time, r.extra.cycle_start_offset.as_nanos(), r.extra.next_cycle_wait.as_nanos(), off, wait),
                    ));
                }
            }
        }
        if !out.violations.is_empty() {
            break;
        }
    }
    out.probes.insert("dc_cycles".into(), cycles as u64);
    drop(group);
    finish(out, &w)
}

pub fn run(id: &str, tier: &str, seed: u64, workers: usize) -> i32 {
    let thorough = tier == "thorough";
    let mut pr = PropertyRun::new(id, tier, seed, workers);
    let _ = Groups::<4>::default;
    pr.stub_components = vec!["physical DC model of the segment: tree of devices with per-link cable delays and per-device forwarding delays, the latching broadcast stamps every open port with the local time of arrival along the real path of the frame; local clocks with arbitrary offsets and 32/64 bit width; reference clock value settable by the harness", "clock, executor, NIC"];
    if id == "C17" {
        pr.real_components = vec!["ethercrab dc.rs (latch_dc_times, parent search, per-topology delay formulas, offset/delay register writes, static sync), subdevice/ports.rs, init — real code"];
        pr.assumptions = vec![
            "exact equality with the true one-way delay is required on pure chains whose devices all have the same forwarding delay and cable delay class drawn per run (the halved round trip the datasheet formula uses equals the one-way delay only then), tolerance 1 ns per hop".into(),
            "on trees and with unequal delays: non-decreasing in processing order, bounded by the true path plus the forwarding-delay asymmetry, offsets exact, reference clock choice exact".into(),
            "scripted (impossible) port reports: only 'error, not panic' is required".into(),
        ];
        let (runs, wall) = if thorough { (4_000_000u64, 600u64) } else { (200_000u64, 35u64) };
        pr.replay_witnesses("dc-topology", &c17_case);
        pr.batch("dc-topology", runs, wall, "one run = 1..24 devices in a drawn shape (chain, forks, crosses/nested junctions, or scripted link reports), drawn cable/forwarding delays (equal or per device), mixed DC support, local clock offsets incl. values near the 32 bit wrap; init; oracle on registers 0x0920/0x0928, propagation_delay(), the static sync FRMW target and the master time handed to init; non-trivial = at least two DC devices; distinct = hash of (shape, parent vector, DC flags)", &c17_case);
    } else {
        let profile = if cfg!(debug_assertions) { "overflow-checks + debug-assertions" } else { "release arithmetic" };
        pr.extra.insert("arithmetic_profile".into(), json!(profile));
        pr.real_components = vec!["ethercrab configure_dc_sync and tx_rx_dc — real code"];
        pr.assumptions = vec![format!("built with {}; ./check C18 runs both profiles", profile), "the start-time interval clause is only evaluated when reference time + start delay fits 64 bits".into()];
        let (runs, wall) = if thorough { (6_000_000u64, 300u64) } else { (200_000u64, 18u64) };
        pr.replay_witnesses("dc-sync", &c18_case);
        pr.batch("dc-sync", runs, wall, "one run = 1..8 devices with every mix of DC support and DcSync setting; period/start delay/shift from {1 ns, 1 us, 125 us, 1 ms, u32::MAX, u32::MAX+1, 3*u32::MAX, random}; the reference clock is set to boundary and random 64 bit values for configuration and for each of 2..6 DC cycles; oracle on the DC sync registers of every device and on CycleInfo; distinct = hash of (flags, settings, period, delay, shift, reference time)", &c18_case);
    }
    pr.finish()
}
