//! C09: initialisation finds every SubDevice once and addresses each distinctly.

use crate::checks::PropertyRun;
use crate::engines::SimError;
use crate::esc::{ST_PREOP};
use crate::netgen::{self, GenCfg};
use crate::rng::TraceHash;
use crate::runner::{CaseOutcome, Violation};
use crate::tape::Tape;
use crate::world::{now_ns, World, WorldCfg};
use ethercrab::error::{Error, Item};
use ethercrab::subdevice_group::SubDeviceGroupHandle;
use ethercrab::{DcSupport, SubDevice, SubDeviceGroup};
use serde_json::json;

pub fn viol(clause: &str, detail: String) -> Violation {
    Violation {
        clause: clause.to_string(),
        signature: clause.to_string(),
        detail,
    }
}

pub fn sim_error_violation(op: &str, e: &SimError) -> Violation {
    match e {
        SimError::Panic(m) => viol("panic", format!("{} panicked: {}", op, m)),
        SimError::Budget => viol("hang", format!("{} did not finish within the step budget", op)),
        SimError::Deadlock => viol("hang", format!("{} is still pending with nothing in flight and no timer armed", op)),
    }
}

#[derive(Default)]
pub struct Groups<const N: usize> {
    pub g0: SubDeviceGroup<N, 4096, crate::simlock::SimLock>,
    pub g1: SubDeviceGroup<N, 4096, crate::simlock::SimLock>,
    pub g2: SubDeviceGroup<N, 4096, crate::simlock::SimLock>,
}

pub fn expected_dc(flags: u16) -> DcSupport {
    if flags & 0x0004 == 0 {
        DcSupport::None
    } else if flags & 0x0100 == 0 {
        DcSupport::RefOnly
    } else if flags & 0x0008 != 0 {
        DcSupport::Bits64
    } else {
        DcSupport::Bits32
    }
}

fn run_init<const N: usize>(t: Tape, light_faults: bool) -> CaseOutcome {
    let mut t = t;
    let mut out = CaseOutcome::default();
    let n = t.choose(N + 3, "n_devices");
    let cfg = GenCfg {
        max_pd_sms_per_dir: 1,
        ..GenCfg::default()
    };
    let mut tree_dc_forced: Vec<usize> = Vec::new();
    let (specs, mut seg) = netgen::gen_network(&mut t, &cfg, n);
    if crate::tape::gen() >= 2 {
        // Devices check the mailbox sync managers they are given on the way to PRE-OP (receive and
        // send mailboxes may differ in size), and the segment may be a tree (ports 2 and 3 in use).
        for d in seg.devices.iter_mut() {
            d.strict_config = true;
        }
        if n >= 2 && t.flag(35, 100, "tree_topology") {
            let parent = crate::c_dc::gen_tree(&mut t, n, 3);
            seg.topo = crate::esc::Topology { parent, link_delay: vec![100; n], fwd_delay: vec![100; n] };
            seg.apply_topology_ports();
            // junctions carry port time stamps
            for i in 0..n {
                if seg.devices[i].port_open.iter().filter(|p| **p).count() >= 3 && !seg.devices[i].dc_supported {
                    let f = u16::from_le_bytes([seg.devices[i].mem[0x0008], seg.devices[i].mem[0x0009]]) | 0x0004 | 0x0100;
                    seg.devices[i].mem[0x0008..0x000a].copy_from_slice(&f.to_le_bytes());
                    seg.devices[i].dc_supported = true;
                    tree_dc_forced.push(i);
                }
            }
        }
    }
    let n_groups = 1 + t.choose(3, "n_groups");
    let reject_one = t.flag(5, 100, "reject_one");
    let assign: Vec<u8> = (0..n).map(|_| t.choose(n_groups, "group_of") as u8).collect();
    let reject_idx = if reject_one && n > 0 { Some(t.choose(n, "reject_idx")) } else { None };
    let mut lagged = 0u64;
    if light_faults {
        for d in seg.devices.iter_mut() {
            if t.flag(40, 100, "sii_lag") {
                d.faults.sii_busy_polls = 1 + t.choose(3, "sii_lag_polls") as u32;
                lagged += 1;
            }
            if t.flag(30, 100, "preop_lag") {
                d.al_behaviour.insert(ST_PREOP, crate::esc::AlBehaviour::Accept { polls: 1 + t.choose(4, "preop_polls") as u32 });
                lagged += 1;
            }
            if t.flag(30, 100, "mbx_lag") {
                d.faults.mbx_lag_polls = t.choose(3, "mbx_lag_polls") as u32;
            }
        }
    }
    let wcfg = WorldCfg {
        slots: t.pick(&[16usize, 4, 8, 2], "slots"),
        frame_len: t.pick(&[1100usize, 128, 256, 1514, 100], "frame_len"),
        static_sync_iterations: t.choose(4, "static_sync") as u32,
        ..WorldCfg::default()
    };
    let mut w = World::new(&wcfg, seg, t);
    let md = w.md();
    let assign2 = assign.clone();
    let res = w.sim.block_on(md.init::<N, Groups<N>>(now_ns, Groups::<N>::default(), move |g: &Groups<N>, sd: &SubDevice| {
        let i = (sd.configured_address().wrapping_sub(0x1000)) as usize;
        if Some(i) == reject_idx {
            return Err(Error::UnknownSubDevice);
        }
        let h: &dyn SubDeviceGroupHandle = match assign2.get(i).copied().unwrap_or(0) {
            0 => &g.g0,
            1 => &g.g1,
            _ => &g.g2,
        };
        Ok(h)
    }));
    let mut th = TraceHash::default();
    th.add(n as u64);
    th.add(w.sim.stats.frames_tx);
    for s in &specs {
        th.add(s.serial as u64);
        th.add(s.eeprom.len() as u64);
    }
    out.trace_hash = th.0;
    out.steps = w.sim.stats.steps;
    out.sim_time_us = crate::clock::now();
    out.nontrivial = n >= 2;
    out.probes.insert("devices".into(), n as u64);
    out.probes.insert("over_capacity".into(), (n > N) as u64);
    out.probes.insert("empty_network".into(), (n == 0) as u64);
    out.probes.insert("duplicate_prev_addresses".into(), {
        let mut a: Vec<u16> = specs.iter().map(|s| s.prev_station_addr).collect();
        a.sort();
        a.windows(2).any(|p| p[0] == p[1]) as u64
    });
    if lagged > 0 {
        out.faults.insert("dev_lag".into(), lagged);
    }
    out.describe = json!({
        "capacity": N, "devices": n, "groups": n_groups, "assignment": assign, "rejected": reject_idx,
        "frame_len": wcfg.frame_len, "slots": wcfg.slots,
        "specs": specs.iter().map(|s| json!({"name": s.expected_name(), "alias": s.alias, "mailbox": s.mailbox.is_some(), "coe": s.mailbox.as_ref().map_or(false, |m| m.coe), "dc_flags": s.support_flags, "read8": s.read8, "prev_addr": s.prev_station_addr, "eeprom_bytes": s.eeprom.len()})).collect::<Vec<_>>(),
        "frames": w.sim.stats.frames_tx,
    });
    if !w.sim.seg.malformed.is_empty() {
        out.violations.push(viol("malformed-frame", w.sim.seg.malformed[0].clone()));
    }
    let groups = match res {
        Err(e) => {
            out.violations.push(sim_error_violation("init", &e));
            out.tape = w.sim.tape.consumed_values();
            return out;
        }
        Ok(r) => r,
    };
    out.tape = w.sim.tape.consumed_values();
    match groups {
        Err(e) => {
            if n > N {
                if e != Error::Capacity(Item::SubDevice) {
                    out.violations.push(viol("over-capacity-error", format!("{} devices with capacity {}: init failed with {:?}, expected Capacity(SubDevice)", n, N, e)));
                }
            } else if reject_idx.is_some() {
                if e != Error::UnknownSubDevice {
                    out.violations.push(viol("filter-error", format!("group filter rejected a device; init failed with {:?}", e)));
                }
            } else {
                out.violations.push(viol("init-failed", format!("init of {} healthy devices (capacity {}) failed with {:?}", n, N, e)));
            }
        }
        Ok(g) => {
            if n > N {
                out.violations.push(viol("silent-truncation", format!("{} devices with capacity {}: init succeeded", n, N)));
                return out;
            }
            if reject_idx.is_some() {
                out.violations.push(viol("filter-error", "group filter rejected a device but init succeeded".into()));
                return out;
            }
            if md.num_subdevices() != n {
                out.violations.push(viol("wrong-count", format!("num_subdevices() = {}, network has {}", md.num_subdevices(), n)));
            }
            let mut seen = vec![0u32; n];
            let lens = [g.g0.len(), g.g1.len(), g.g2.len()];
            if lens.iter().sum::<usize>() != n {
                out.violations.push(viol("wrong-count", format!("groups hold {:?} devices, network has {}", lens, n)));
            }
            let mut check = |gi: u8, sd_addr: u16, name: &str, ident: ethercrab::SubDeviceIdentity, alias: u16, dc: DcSupport, out: &mut CaseOutcome| {
                let i = sd_addr.wrapping_sub(0x1000) as usize;
                if i >= n {
                    out.violations.push(viol("wrong-address", format!("a SubDevice reports configured address {:#06x} in a network of {}", sd_addr, n)));
                    return;
                }
                seen[i] += 1;
                let s = &specs[i];
                if assign[i].min(2) != gi {
                    out.violations.push(viol("wrong-group", format!("device {} was assigned to group {} but is in group {}", i, assign[i], gi)));
                }
                let en = s.expected_name();
                let en64: String = en.chars().take(64).collect();
                if name != en && name != en64 {
                    out.violations.push(viol("wrong-name", format!("device {}: name {:?}, EEPROM encodes {:?}", i, name, en)));
                }
                if ident.vendor_id != s.vendor || ident.product_id != s.product || ident.revision != s.revision || ident.serial != s.serial {
                    out.violations.push(viol("wrong-identity", format!("device {}: identity {:?}, EEPROM encodes vendor {:#x} product {:#x} rev {:#x} serial {:#x}", i, ident, s.vendor, s.product, s.revision, s.serial)));
                }
                if alias != s.alias {
                    out.violations.push(viol("wrong-alias", format!("device {}: alias {:#06x}, device holds {:#06x}", i, alias, s.alias)));
                }
                let flags = if tree_dc_forced.contains(&i) { s.support_flags | 0x0004 | 0x0100 } else { s.support_flags };
                if dc != expected_dc(flags) {
                    out.violations.push(viol("wrong-dc-support", format!("device {}: dc support {:?}, flags {:#06x} mean {:?}", i, dc, s.support_flags, expected_dc(s.support_flags))));
                }
            };
            for sd in g.g0.iter(md) {
                check(0, sd.configured_address(), sd.name(), sd.identity(), sd.alias_address(), sd.dc_support(), &mut out);
            }
            for sd in g.g1.iter(md) {
                check(1, sd.configured_address(), sd.name(), sd.identity(), sd.alias_address(), sd.dc_support(), &mut out);
            }
            for sd in g.g2.iter(md) {
                check(2, sd.configured_address(), sd.name(), sd.identity(), sd.alias_address(), sd.dc_support(), &mut out);
            }
            // Ports: what init recorded as open must be the link state that device reported.
            for sd in g.g0.iter(md).chain(g.g1.iter(md)).chain(g.g2.iter(md)) {
                let i = sd.configured_address().wrapping_sub(0x1000) as usize;
                if i < n {
                    let got = ethercrab::verif::subdevice_open_ports(&sd);
                    let want = w.sim.seg.devices[i].port_open;
                    if got != want {
                        out.violations.push(viol("wrong-ports", format!("device {}: open ports recorded as {:?}, the device reports link on {:?} (port numbers 0..3)", i, got, want)));
                    }
                }
            }
            for (i, c) in seen.iter().enumerate() {
                if *c != 1 {
                    out.violations.push(viol("not-exactly-one-group", format!("device {} appears {} times in the groups", i, c)));
                }
            }
            for (i, d) in w.sim.seg.devices.iter().enumerate() {
                if d.station_address() != 0x1000 + i as u16 {
                    out.violations.push(viol("wrong-station-address", format!("device at ring position {} holds station address {:#06x}", i, d.station_address())));
                }
                if d.al_state != ST_PREOP || d.al_error {
                    out.violations.push(viol("not-pre-op", format!("device {} is in AL state {} (error {}) after init", i, d.al_state, d.al_error)));
                }
            }
        }
    }
    out
}

pub fn c09_case(_rs: u64, _nonce: u64, t: Tape, faults: bool) -> CaseOutcome {
    let mut t = t;
    match t.choose(3, "capacity") {
        0 => run_init::<16>(t, faults),
        1 => run_init::<4>(t, faults),
        _ => run_init::<8>(t, faults),
    }
}

pub fn case_clean(rs: u64, nonce: u64, replay: Option<Vec<u32>>) -> CaseOutcome {
    let t = match replay {
        Some(v) => Tape::replay(v),
        None => Tape::search(rs),
    };
    c09_case(rs, nonce, t, false)
}

pub fn case_lag(rs: u64, nonce: u64, replay: Option<Vec<u32>>) -> CaseOutcome {
    let t = match replay {
        Some(v) => Tape::replay(v),
        None => Tape::search(rs),
    };
    c09_case(rs, nonce, t, true)
}

pub fn run_c09(tier: &str, seed: u64, workers: usize) -> i32 {
    let mut pr = PropertyRun::new("C09", tier, seed, workers);
    pr.real_components = vec!["ethercrab::MainDevice::init and everything below it (SubDevice::new, EEPROM reads, DC configuration, mailbox SM configuration, INIT->PRE-OP) — real code", "PDU loop — real code"];
    pr.stub_components = vec!["EtherCAT segment: /verif/sim/src/esc reference model (registers, SII, AL state machine, mailbox/CoE)", "clock, executor, NIC"];
    pr.assumptions = vec!["chain topology, fault-free wire; device-side lag only in the dev-lag batch".into()];
    let (runs, wall) = if tier == "thorough" { (3_000_000u64, 500u64) } else { (40_000u64, 40u64) };
    pr.replay_witnesses("init", &case_clean);
    pr.batch("init", runs, wall, "one run = a drawn network of 0..capacity+2 devices (capacity 4, 8 or 16) with drawn EEPROMs, previous station addresses, mailboxes, DC flags, 4/8 byte SII, assigned to 1..3 groups; non-trivial = at least two devices; distinct = distinct hash of the device set and frame count", &case_clean);
    pr.replay_witnesses("init-dev-lag", &case_lag);
    pr.batch("init-dev-lag", runs / 2, wall / 2, "as above with SII busy polls, delayed PRE-OP and delayed mailbox replies injected per device", &case_lag);
    pr.finish()
}
