//! A MainDevice wired to the segment model through engine S.

use crate::clock;
use crate::engines::SimS;
use crate::esc::Segment;
use crate::pduscen::Owned;
use crate::storage::{self, OwnedStorage};
use crate::tape::Tape;
use ethercrab::{MainDevice, MainDeviceConfig, RetryBehaviour, Timeouts};
use std::time::Duration;

pub struct World {
    // Field order = drop order: the simulator (TX/RX handles) and MainDevice go before the storage.
    pub sim: SimS,
    pub md: Owned<MainDevice<'static>>,
    pub store: OwnedStorage,
}

#[derive(Clone, Debug)]
pub struct WorldCfg {
    pub slots: usize,
    pub frame_len: usize,
    pub pdu_timeout_us: u64,
    pub state_transition_us: u64,
    pub eeprom_us: u64,
    pub mailbox_echo_us: u64,
    pub mailbox_response_us: u64,
    pub wait_loop_delay_us: u64,
    pub static_sync_iterations: u32,
    pub retry: RetryBehaviour,
    pub latency: (u64, u64),
}

impl Default for WorldCfg {
    fn default() -> Self {
        WorldCfg {
            slots: 16,
            frame_len: 1100,
            pdu_timeout_us: 2_000,
            state_transition_us: 20_000,
            eeprom_us: 2_000,
            mailbox_echo_us: 5_000,
            mailbox_response_us: 10_000,
            wait_loop_delay_us: 0,
            static_sync_iterations: 3,
            retry: RetryBehaviour::None,
            latency: (1, 1),
        }
    }
}

pub fn now_ns() -> u64 {
    1_000_000u64.wrapping_add(clock::now().wrapping_mul(1000))
}

impl World {
    pub fn new(cfg: &WorldCfg, seg: Segment, tape: Tape) -> World {
        clock::reset();
        let store = storage::make(cfg.slots, cfg.frame_len).expect("storage size on the menu");
        let (tx, rx, pl) = store.split();
        let timeouts = Timeouts {
            state_transition: Duration::from_micros(cfg.state_transition_us),
            pdu: Duration::from_micros(cfg.pdu_timeout_us),
            eeprom: Duration::from_micros(cfg.eeprom_us),
            wait_loop_delay: Duration::from_micros(cfg.wait_loop_delay_us),
            mailbox_echo: Duration::from_micros(cfg.mailbox_echo_us),
            mailbox_response: Duration::from_micros(cfg.mailbox_response_us),
        };
        let md = Owned::new(MainDevice::new(
            pl,
            timeouts,
            MainDeviceConfig {
                dc_static_sync_iterations: cfg.static_sync_iterations,
                retry_behaviour: cfg.retry,
            },
        ));
        let mut sim = SimS::new(tx, rx, seg, tape);
        sim.latency = cfg.latency;
        sim.seg.max_frame = cfg.frame_len;
        World { sim, md, store }
    }

    pub fn md(&self) -> &'static MainDevice<'static> {
        self.md.get()
    }
}
