//! Independent EtherCAT frame codec (ETG.1000.4 frame layout). Deliberately shares no code with
//! ethercrab or `ethercrab-wire`: it is the oracle's view of what is on the wire.

pub const ETHERTYPE_ECAT: u16 = 0x88A4;
pub const MASTER_MAC: [u8; 6] = [0x10; 6];
pub const RETURN_MAC: [u8; 6] = [0x12, 0x10, 0x10, 0x10, 0x10, 0x10];

pub const CMD_NOP: u8 = 0;
pub const CMD_APRD: u8 = 1;
pub const CMD_APWR: u8 = 2;
pub const CMD_APRW: u8 = 3;
pub const CMD_FPRD: u8 = 4;
pub const CMD_FPWR: u8 = 5;
pub const CMD_FPRW: u8 = 6;
pub const CMD_BRD: u8 = 7;
pub const CMD_BWR: u8 = 8;
pub const CMD_BRW: u8 = 9;
pub const CMD_LRD: u8 = 10;
pub const CMD_LWR: u8 = 11;
pub const CMD_LRW: u8 = 12;
pub const CMD_ARMW: u8 = 13;
pub const CMD_FRMW: u8 = 14;

#[derive(Clone, Debug, PartialEq, Eq)]
pub struct Datagram {
    pub cmd: u8,
    pub idx: u8,
    /// Raw 4 address bytes as transmitted.
    pub addr: [u8; 4],
    pub len: u16,
    /// Bits 11..=13 of the length word (reserved, must be zero).
    pub reserved: u8,
    pub circulating: bool,
    pub more: bool,
    pub irq: u16,
    pub data: Vec<u8>,
    pub wkc: u16,
    /// Offset of this datagram's header from the start of the Ethernet frame.
    pub offset: usize,
}

impl Datagram {
    pub fn adp(&self) -> u16 {
        u16::from_le_bytes([self.addr[0], self.addr[1]])
    }
    pub fn ado(&self) -> u16 {
        u16::from_le_bytes([self.addr[2], self.addr[3]])
    }
    pub fn logical(&self) -> u32 {
        u32::from_le_bytes(self.addr)
    }
    pub fn set_adp(&mut self, v: u16) {
        self.addr[0..2].copy_from_slice(&v.to_le_bytes());
    }
    pub fn wire_len(&self) -> usize {
        10 + self.data.len() + 2
    }
}

#[derive(Clone, Debug, PartialEq, Eq)]
pub struct Frame {
    pub dst: [u8; 6],
    pub src: [u8; 6],
    pub ethertype: u16,
    /// 11 bit length field of the EtherCAT header.
    pub ecat_len: u16,
    pub ecat_reserved: bool,
    pub ecat_type: u8,
    pub datagrams: Vec<Datagram>,
    /// Bytes after the last datagram, counted against the *Ethernet* frame end.
    pub trailing: usize,
    /// Sum of datagram sizes actually present.
    pub datagram_bytes: usize,
}

#[derive(Clone, Debug, PartialEq, Eq)]
pub enum DecodeError {
    ShortEthernet,
    NotEthercat,
    ShortEcatHeader,
    ShortDatagramHeader { at: usize },
    ShortDatagramData { at: usize, need: usize, have: usize },
}

/// Decode a complete Ethernet II frame. The datagram chain is followed through the "more follows"
/// flag, independently of the EtherCAT header's length field (so that a disagreement between the
/// two can be reported).
pub fn decode(bytes: &[u8]) -> Result<Frame, DecodeError> {
    if bytes.len() < 14 {
        return Err(DecodeError::ShortEthernet);
    }
    let mut dst = [0u8; 6];
    let mut src = [0u8; 6];
    dst.copy_from_slice(&bytes[0..6]);
    src.copy_from_slice(&bytes[6..12]);
    let ethertype = u16::from_be_bytes([bytes[12], bytes[13]]);
    if ethertype != ETHERTYPE_ECAT {
        return Err(DecodeError::NotEthercat);
    }
    if bytes.len() < 16 {
        return Err(DecodeError::ShortEcatHeader);
    }
    let h = u16::from_le_bytes([bytes[14], bytes[15]]);
    let ecat_len = h & 0x07ff;
    let ecat_reserved = h & 0x0800 != 0;
    let ecat_type = (h >> 12) as u8;

    let mut datagrams = Vec::new();
    let mut pos = 16usize;
    loop {
        if bytes.len() < pos + 10 {
            return Err(DecodeError::ShortDatagramHeader { at: pos });
        }
        let cmd = bytes[pos];
        let idx = bytes[pos + 1];
        let mut addr = [0u8; 4];
        addr.copy_from_slice(&bytes[pos + 2..pos + 6]);
        let lw = u16::from_le_bytes([bytes[pos + 6], bytes[pos + 7]]);
        let len = lw & 0x07ff;
        let reserved = ((lw >> 11) & 0x7) as u8;
        let circulating = lw & 0x4000 != 0;
        let more = lw & 0x8000 != 0;
        let irq = u16::from_le_bytes([bytes[pos + 8], bytes[pos + 9]]);
        let need = pos + 10 + len as usize + 2;
        if bytes.len() < need {
            return Err(DecodeError::ShortDatagramData {
                at: pos,
                need,
                have: bytes.len(),
            });
        }
        let data = bytes[pos + 10..pos + 10 + len as usize].to_vec();
        let wkc = u16::from_le_bytes([bytes[need - 2], bytes[need - 1]]);
        datagrams.push(Datagram {
            cmd,
            idx,
            addr,
            len,
            reserved,
            circulating,
            more,
            irq,
            data,
            wkc,
            offset: pos,
        });
        pos = need;
        if !more {
            break;
        }
    }

    Ok(Frame {
        dst,
        src,
        ethertype,
        ecat_len,
        ecat_reserved,
        ecat_type,
        datagrams,
        trailing: bytes.len() - pos,
        datagram_bytes: pos - 16,
    })
}

/// Encode a frame from its parts. `ecat_len`/`ecat_type` are taken from the struct (so lying
/// headers can be produced); `more` flags are taken from the datagrams as given.
pub fn encode(f: &Frame) -> Vec<u8> {
    let mut out = Vec::with_capacity(16 + f.datagram_bytes + f.trailing);
    out.extend_from_slice(&f.dst);
    out.extend_from_slice(&f.src);
    out.extend_from_slice(&f.ethertype.to_be_bytes());
    let h = (f.ecat_len & 0x07ff) | ((f.ecat_reserved as u16) << 11) | ((f.ecat_type as u16) << 12);
    out.extend_from_slice(&h.to_le_bytes());
    for d in &f.datagrams {
        out.push(d.cmd);
        out.push(d.idx);
        out.extend_from_slice(&d.addr);
        let lw = (d.len & 0x07ff)
            | ((d.reserved as u16 & 7) << 11)
            | ((d.circulating as u16) << 14)
            | ((d.more as u16) << 15);
        out.extend_from_slice(&lw.to_le_bytes());
        out.extend_from_slice(&d.irq.to_le_bytes());
        out.extend_from_slice(&d.data);
        out.extend_from_slice(&d.wkc.to_le_bytes());
    }
    out.extend(std::iter::repeat(0u8).take(f.trailing));
    out
}

/// Re-encode a decoded request as the response a segment sends back: source MAC with the
/// locally-administered bit set by the first device, everything else as now held in the struct.
pub fn encode_response(f: &Frame) -> Vec<u8> {
    let mut g = f.clone();
    g.src = RETURN_MAC;
    g.trailing = 0;
    encode(&g)
}

/// C04's per-frame well-formedness clauses. Returns a description of the first clause violated.
pub fn check_well_formed(bytes: &[u8], max_frame: usize) -> Result<Frame, String> {
    if bytes.len() > max_frame {
        return Err(format!("frame of {} bytes exceeds the configured frame size {}", bytes.len(), max_frame));
    }
    let f = decode(bytes).map_err(|e| format!("undecodable frame: {:?}", e))?;
    if f.dst != [0xff; 6] {
        return Err(format!("destination {:02x?} is not broadcast", f.dst));
    }
    if f.src != MASTER_MAC {
        return Err(format!("source {:02x?} is not the MainDevice address", f.src));
    }
    if f.ecat_type != 1 {
        return Err(format!("EtherCAT protocol type {} != 1", f.ecat_type));
    }
    if f.ecat_reserved {
        return Err("reserved bit of the EtherCAT header set".into());
    }
    if f.ecat_len as usize != f.datagram_bytes {
        return Err(format!(
            "EtherCAT length field {} != {} bytes of datagrams present",
            f.ecat_len, f.datagram_bytes
        ));
    }
    if f.trailing != 0 {
        return Err(format!("{} trailing bytes after the last datagram", f.trailing));
    }
    for (i, d) in f.datagrams.iter().enumerate() {
        if d.irq != 0 {
            return Err(format!("datagram {} has interrupt field {:#06x}", i, d.irq));
        }
        if d.wkc != 0 {
            return Err(format!("datagram {} has working counter {} on transmission", i, d.wkc));
        }
        if d.circulating {
            return Err(format!("datagram {} has the circulating bit set", i));
        }
        if d.reserved != 0 {
            return Err(format!("datagram {} has reserved length bits {:#x}", i, d.reserved));
        }
        if d.cmd > CMD_FRMW {
            return Err(format!("datagram {} has undefined command {}", i, d.cmd));
        }
    }
    Ok(f)
}
