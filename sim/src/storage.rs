//! A menu of `PduStorage` instantiations. Everything behind `try_split` is type-erased in
//! ethercrab (`PduStorageRef`), so a run can draw its slot count and frame size at run time.

use ethercrab::{PduLoop, PduRx, PduStorage, PduTx};

pub trait AnyStorage {
    fn split(&'static self) -> (PduTx<'static>, PduRx<'static>, PduLoop<'static>);
}

impl<const N: usize, const D: usize> AnyStorage for PduStorage<N, D> {
    fn split(&'static self) -> (PduTx<'static>, PduRx<'static>, PduLoop<'static>) {
        self.try_split().expect("fresh storage")
    }
}

/// Heap-allocated storage handed out as `'static`; freed when this owner is dropped. The owner must
/// outlive everything obtained from [`OwnedStorage::split`] (declare it first in the run).
pub struct OwnedStorage {
    ptr: *mut dyn AnyStorage,
    pub slots: usize,
    pub frame_len: usize,
}

impl OwnedStorage {
    pub fn split(&self) -> (PduTx<'static>, PduRx<'static>, PduLoop<'static>) {
        // SAFETY: the allocation lives until `self` is dropped and the caller keeps `self` alive
        // longer than the returned handles (module contract).
        let r: &'static dyn AnyStorage = unsafe { &*self.ptr };
        r.split()
    }
}

impl Drop for OwnedStorage {
    fn drop(&mut self) {
        unsafe { drop(Box::from_raw(self.ptr)) };
    }
}

macro_rules! storage_menu {
    ($n:expr, $d:expr; $( $N:literal ),* ; $( $D:literal ),* ) => {{
        storage_menu!(@n $n, $d; [$( $N ),*]; [$( $D ),*])
    }};
    (@n $n:expr, $d:expr; [$( $N:literal ),*]; $ds:tt) => {{
        match $n {
            $( $N => storage_menu!(@d $N, $d; $ds), )*
            _ => None,
        }
    }};
    (@d $N:literal, $d:expr; [$( $D:literal ),*]) => {{
        match $d {
            $( $D => {
                let b: Box<dyn AnyStorage> = Box::new(PduStorage::<$N, $D>::new());
                Some(b)
            } )*
            _ => None,
        }
    }};
}

/// Frame sizes available for small-frame configurations (every size from the 28 byte minimum).
pub const SMALL_SIZES: std::ops::RangeInclusive<usize> = 28..=128;

/// Larger frame sizes available.
pub const LARGE_SIZES: [usize; 40] = [
    129, 130, 140, 150, 156, 160, 172, 192, 200, 220, 240, 255, 256, 257, 272, 300, 320, 384, 400, 448, 500, 512, 513, 600,
    700, 768, 800, 900, 1000, 1023, 1024, 1025, 1100, 1128, 1200, 1400, 1472, 1498, 1500, 1514,
];

pub const SLOT_COUNTS: [usize; 6] = [1, 2, 4, 8, 16, 32];

pub fn all_sizes() -> Vec<usize> {
    let mut v: Vec<usize> = SMALL_SIZES.collect();
    v.extend_from_slice(&LARGE_SIZES);
    v
}

fn make_boxed(n: usize, d: usize) -> Option<Box<dyn AnyStorage>> {
    storage_menu!(n, d;
        1, 2, 4, 8, 16, 32;
        28, 29, 30, 31, 32, 33, 34, 35, 36, 37, 38, 39, 40, 41, 42, 43, 44, 45, 46, 47, 48, 49, 50, 51, 52, 53, 54, 55, 56,
        57, 58, 59, 60, 61, 62, 63, 64, 65, 66, 67, 68, 69, 70, 71, 72, 73, 74, 75, 76, 77, 78, 79, 80, 81, 82, 83, 84,
        85, 86, 87, 88, 89, 90, 91, 92, 93, 94, 95, 96, 97, 98, 99, 100, 101, 102, 103, 104, 105, 106, 107, 108, 109,
        110, 111, 112, 113, 114, 115, 116, 117, 118, 119, 120, 121, 122, 123, 124, 125, 126, 127, 128,
        129, 130, 140, 150, 156, 160, 172, 192, 200, 220, 240, 255, 256, 257, 272, 300, 320, 384, 400, 448, 500, 512,
        513, 600, 700, 768, 800, 900, 1000, 1023, 1024, 1025, 1100, 1128, 1200, 1400, 1472, 1498, 1500, 1514
    )
}

/// Create storage with `n` slots of `frame_len` bytes each; `None` if that pair is not on the menu.
pub fn make(n: usize, frame_len: usize) -> Option<OwnedStorage> {
    let b = make_boxed(n, frame_len)?;
    Some(OwnedStorage {
        ptr: Box::into_raw(b),
        slots: n,
        frame_len,
    })
}
