//! C15 (SDO transfers deliver exactly the object's bytes) and C16 (no mailbox reply can crash the
//! MainDevice).

use crate::c_init::{sim_error_violation, viol};
use crate::checks::PropertyRun;
use crate::engines::SimError;
use crate::esc::coe::{Mutation, UploadPolicy};
use crate::netgen::{self, GenCfg};
use crate::rng::{mix, TraceHash};
use crate::runner::CaseOutcome;
use crate::tape::Tape;
use crate::world::{now_ns, World, WorldCfg};
use ethercrab::error::{Error, MailboxError};
use ethercrab::{ObjectDescriptionListQuery, SubDeviceGroup};
use serde_json::json;

fn tape_of(rs: u64, replay: Option<Vec<u32>>) -> Tape {
    match replay {
        Some(v) => Tape::replay(v),
        None => Tape::search(rs),
    }
}

fn obj_bytes(nonce: u64, index: u16, sub: u8, n: usize) -> Vec<u8> {
    (0..n).map(|i| (mix(&[nonce, index as u64, sub as u64, (i / 8) as u64]) >> ((i % 8) * 8)) as u8 | 0x01).collect()
}

struct Setup {
    w: World,
    group: SubDeviceGroup<4, 64>,
    mailbox: (u16, u16),
}

fn setup(t: &mut Tape, hostile: bool) -> Result<(Setup, serde_json::Value), CaseOutcome> {
    let sizes: Vec<u16> = if hostile { vec![16, 24, 32, 48, 128, 1024, 20, 64] } else { vec![16, 24, 32, 40, 48, 64, 128, 256, 1024, 22, 30] };
    let cfg = GenCfg {
        mailbox_pct: 100,
        coe_pct: 100,
        pd_pct: 30,
        dc_pct: 0,
        mailbox_sizes: sizes,
        ..GenCfg::default()
    };
    let n = 1 + t.choose(2, "n_devices");
    let (specs, seg) = netgen::gen_network(t, &cfg, n);
    let wcfg = WorldCfg {
        static_sync_iterations: 0,
        frame_len: 1100,
        mailbox_echo_us: 1_000,
        mailbox_response_us: 2_000,
        pdu_timeout_us: 500,
        state_transition_us: 3_000,
        ..WorldCfg::default()
    };
    let Some(m) = specs[0].mailbox.as_ref() else {
        return Err(CaseOutcome::default());
    };
    let mailbox = (m.write_len, m.read_len);
    let desc = json!({"devices": n, "write_mailbox": m.write_len, "read_mailbox": m.read_len, "complete_access": m.complete_access});
    let tape = std::mem::replace(t, Tape::replay(vec![]));
    let mut w = World::new(&wcfg, seg, tape);
    w.sim.max_steps = 600_000;
    let md = w.md();
    match w.sim.block_on(md.init_single_group::<4, 64>(now_ns)) {
        Ok(Ok(group)) => Ok((Setup { w, group, mailbox }, desc)),
        Ok(Err(e)) => {
            let mut out = CaseOutcome::default();
            out.violations.push(viol("init-failed", format!("{:?}", e)));
            out.tape = w.sim.tape.consumed_values();
            Err(out)
        }
        Err(e) => {
            let mut out = CaseOutcome::default();
            out.violations.push(sim_error_violation("init", &e));
            out.tape = w.sim.tape.consumed_values();
            Err(out)
        }
    }
}

macro_rules! read_as {
    ($w:expr, $sd:expr, $idx:expr, $sub:expr, $t:ty, $conv:expr) => {{
        match $w.sim.block_on($sd.sdo_read::<$t>($idx, $sub)) {
            Err(e) => Err(e),
            Ok(r) => Ok(r.map(|v| $conv(v))),
        }
    }};
}

/// Read object (idx, sub) of `len` bytes with a destination type that holds exactly `len` bytes (or a
/// string/array with at least that capacity). Returns the bytes read.
fn read_exact(w: &mut World, sd: &ethercrab::SubDeviceRef<'static, &ethercrab::SubDevice>, idx: u16, sub: u8, len: usize, roomy: bool) -> Result<Result<Vec<u8>, Error>, SimError> {
    let le = |v: u64, n: usize| v.to_le_bytes()[..n].to_vec();
    match (len, roomy) {
        (1, false) => read_as!(w, sd, idx, sub, u8, |v: u8| vec![v]),
        (2, false) => read_as!(w, sd, idx, sub, u16, |v: u16| le(v as u64, 2)),
        (4, false) => read_as!(w, sd, idx, sub, u32, |v: u32| le(v as u64, 4)),
        (8, false) => read_as!(w, sd, idx, sub, u64, |v: u64| le(v, 8)),
        (3, false) => read_as!(w, sd, idx, sub, [u8; 3], |v: [u8; 3]| v.to_vec()),
        (5, false) => read_as!(w, sd, idx, sub, [u8; 5], |v: [u8; 5]| v.to_vec()),
        (6, false) => read_as!(w, sd, idx, sub, [u8; 6], |v: [u8; 6]| v.to_vec()),
        (7, false) => read_as!(w, sd, idx, sub, [u8; 7], |v: [u8; 7]| v.to_vec()),
        (9, false) => read_as!(w, sd, idx, sub, [u8; 9], |v: [u8; 9]| v.to_vec()),
        (12, false) => read_as!(w, sd, idx, sub, [u8; 12], |v: [u8; 12]| v.to_vec()),
        (16, false) => read_as!(w, sd, idx, sub, [u8; 16], |v: [u8; 16]| v.to_vec()),
        (23, false) => read_as!(w, sd, idx, sub, [u8; 23], |v: [u8; 23]| v.to_vec()),
        (37, false) => read_as!(w, sd, idx, sub, [u8; 37], |v: [u8; 37]| v.to_vec()),
        (64, false) => read_as!(w, sd, idx, sub, [u8; 64], |v: [u8; 64]| v.to_vec()),
        (100, false) => read_as!(w, sd, idx, sub, [u8; 100], |v: [u8; 100]| v.to_vec()),
        (255, false) => read_as!(w, sd, idx, sub, [u8; 255], |v: [u8; 255]| v.to_vec()),
        (512, false) => read_as!(w, sd, idx, sub, [u8; 512], |v: [u8; 512]| v.to_vec()),
        (n, _) if n <= 32 => read_as!(w, sd, idx, sub, heapless::String<32>, |v: heapless::String<32>| v.as_bytes().to_vec()),
        (n, _) if n <= 128 => read_as!(w, sd, idx, sub, heapless::String<128>, |v: heapless::String<128>| v.as_bytes().to_vec()),
        _ => read_as!(w, sd, idx, sub, heapless::String<600>, |v: heapless::String<600>| v.as_bytes().to_vec()),
    }
}

const EXACT_SIZES: [usize; 17] = [1, 2, 4, 8, 3, 5, 6, 7, 9, 12, 16, 23, 37, 64, 100, 255, 512];

pub fn c15_case(rs: u64, _nonce: u64, replay: Option<Vec<u32>>) -> CaseOutcome {
    let mut t = tape_of(rs, replay);
    let (mut s, mut desc) = match setup(&mut t, false) {
        Ok(x) => x,
        Err(o) => return o,
    };
    let mut out = CaseOutcome::default();
    let nonce = s.w.sim.tape.bits32("nonce") as u64;
    let md = s.w.md();
    let sd = s.group.subdevice(md, 0).expect("device 0");
    let (wlen, rlen) = s.mailbox;
    let mut th = TraceHash::default();
    th.add(wlen as u64);
    th.add(rlen as u64);
    let n_ops = 2 + s.w.sim.tape.choose(6, "n_ops");
    let mut kinds = std::collections::BTreeMap::new();
    let mut ops_desc = Vec::new();
    s.w.sim.seg.devices[0].coe.as_mut().unwrap().log.clear();
    for opi in 0..n_ops {
        if !out.violations.is_empty() {
            break;
        }
        let index = 0x2000 + opi as u16;
        let sub = s.w.sim.tape.choose(4, "sub") as u8;
        let kind = s.w.sim.tape.choose(10, "op_kind");
        th.add(kind as u64);
        match kind {
            // Reads of every size under every upload mode.
            0..=4 => {
                let roomy = s.w.sim.tape.flag(30, 100, "roomy_destination");
                let len = if roomy {
                    // Strings: printable 7 bit bytes of any length the destination holds.
                    s.w.sim.tape.choose(520, "str_len")
                } else {
                    s.w.sim.tape.pick(&EXACT_SIZES, "exact_len")
                };
                let mut data = obj_bytes(nonce, index, sub, len);
                if roomy {
                    for b in data.iter_mut() {
                        *b = 0x21 + (*b % 0x5d);
                    }
                }
                let policy = match s.w.sim.tape.choose(5, "policy") {
                    0 | 1 => UploadPolicy::Auto,
                    2 => UploadPolicy::NeverExpedited,
                    3 => UploadPolicy::Segmented { first: 0, seg: 1 + s.w.sim.tape.choose(20, "seg_small") },
                    _ => UploadPolicy::Segmented { first: s.w.sim.tape.choose(40, "first_frag"), seg: 1 + s.w.sim.tape.choose(rlen as usize, "seg_any") },
                };
                let stale = s.w.sim.tape.flag(15, 100, "stale_out_mailbox");
                {
                    let d = &mut s.w.sim.seg.devices[0];
                    let coe = d.coe.as_mut().unwrap();
                    coe.od.insert((index, sub), data.clone());
                    coe.policy = policy.clone();
                    if stale {
                        // Something left in the out mailbox from before (e.g. an unread reply).
                        let junk: Vec<u8> = (0..rlen as usize).map(|i| (i as u8).wrapping_mul(13) ^ 0x5a).collect();
                        d.inject_out_mailbox(junk);
                    }
                }
                let segmented_first = match &policy {
                    UploadPolicy::Segmented { first, .. } if len > *first => Some(*first),
                    _ => None,
                };
                let cap_normal = (rlen as usize).saturating_sub(16);
                let mode = match (&policy, len) {
                    (UploadPolicy::Segmented { first, .. }, l) if l > *first => "segmented",
                    (UploadPolicy::Auto, l) if l <= 4 && l > 0 => "expedited",
                    (_, l) if l <= cap_normal => "normal",
                    _ => "segmented",
                };
                *kinds.entry(format!("read/{}", mode)).or_insert(0u64) += 1;
                if stale {
                    *kinds.entry("stale-out-mailbox".into()).or_insert(0) += 1;
                }
                ops_desc.push(format!("read {:#06x}:{} {} bytes {} {:?} roomy {}", index, sub, len, mode, policy, roomy));
                match read_exact(&mut s.w, &sd, index, sub, len, roomy) {
                    Err(e) => out.violations.push(sim_error_violation(&format!("sdo_read of a {} byte object ({})", len, mode), &e)),
                    Ok(Err(e)) => {
                        let first_note = match (mode, segmented_first) {
                            ("segmented", Some(f)) if f > 0 => "+first-fragment-in-initiate-response",
                            _ => "",
                        };
                        let mut v = viol(
                            "sdo-read-failed",
                            format!("sdo_read({:#06x}:{}) of a {} byte object answered {} (mailbox {} bytes, policy {:?}) failed with {:?}", index, sub, len, mode, rlen, policy, e),
                        );
                        v.signature = format!("sdo-read-failed@{}{}", mode, first_note);
                        out.violations.push(v);
                    }
                    Ok(Ok(got)) => {
                        if got != data {
                            let first_note = match (mode, segmented_first) {
                                ("segmented", Some(f)) if f > 0 => "+first-fragment-in-initiate-response",
                                _ => "",
                            };
                            let mut v = viol(
                                "sdo-read-wrong-bytes",
                                format!("sdo_read({:#06x}:{}) answered {} (mailbox {} bytes, policy {:?}): returned {} bytes {:02x?}, the object holds {} bytes {:02x?}", index, sub, mode, rlen, policy, got.len(), &got[..got.len().min(24)], data.len(), &data[..data.len().min(24)]),
                            );
                            v.signature = format!("sdo-read-wrong-bytes@{}{}", mode, first_note);
                            out.violations.push(v);
                        }
                    }
                }
            }
            // Writes of 1..4 bytes.
            5 => {
                let n = 1 + s.w.sim.tape.choose(3, "write_size_class");
                let v = s.w.sim.tape.bits32("write_value");
                let res = match n {
                    1 => s.w.sim.block_on(sd.sdo_write(index, sub, v as u8)),
                    2 => s.w.sim.block_on(sd.sdo_write(index, sub, v as u16)),
                    _ => s.w.sim.block_on(sd.sdo_write(index, sub, v)),
                };
                let want: Vec<u8> = match n {
                    1 => vec![v as u8],
                    2 => (v as u16).to_le_bytes().to_vec(),
                    _ => v.to_le_bytes().to_vec(),
                };
                *kinds.entry("write".into()).or_insert(0) += 1;
                ops_desc.push(format!("write {:#06x}:{} {:02x?}", index, sub, want));
                match res {
                    Err(e) => out.violations.push(sim_error_violation("sdo_write", &e)),
                    Ok(Err(e)) => out.violations.push(viol("sdo-write-failed", format!("sdo_write({:#06x}:{}, {} bytes) failed with {:?}", index, sub, want.len(), e))),
                    Ok(Ok(())) => {
                        let got = s.w.sim.seg.devices[0].coe.as_ref().unwrap().od.get(&(index, sub)).cloned();
                        if got.as_ref() != Some(&want) {
                            out.violations.push(viol("sdo-write-wrong", format!("after sdo_write({:#06x}:{}, {:02x?}) the device holds {:02x?}", index, sub, want, got)));
                        }
                    }
                }
            }
            // Array helpers.
            6 => {
                let k = if crate::tape::gen() >= 2 { s.w.sim.tape.pick(&[1usize, 2, 3, 4, 5, 0], "array_len") } else { 1 + s.w.sim.tape.choose(5, "array_len") };
                if k == 0 {
                    // An empty array over an object that currently holds entries: the count must
                    // end up zero.
                    let od = &mut s.w.sim.seg.devices[0].coe.as_mut().unwrap().od;
                    od.insert((index, 0), vec![2]);
                    od.insert((index, 1), vec![0x11, 0x22]);
                    od.insert((index, 2), vec![0x33, 0x44]);
                    *kinds.entry("array-empty".into()).or_insert(0) += 1;
                }
                let vals: Vec<u16> = (0..k).map(|i| (mix(&[nonce, index as u64, i as u64]) as u16) | 1).collect();
                *kinds.entry("array".into()).or_insert(0) += 1;
                ops_desc.push(format!("array {:#06x} {:04x?}", index, vals));
                match s.w.sim.block_on(sd.sdo_write_array(index, &vals)) {
                    Err(e) => out.violations.push(sim_error_violation("sdo_write_array", &e)),
                    Ok(Err(e)) => out.violations.push(viol("sdo-write-failed", format!("sdo_write_array({:#06x}) failed with {:?}", index, e))),
                    Ok(Ok(())) => {
                        let od = &s.w.sim.seg.devices[0].coe.as_ref().unwrap().od;
                        let count = od.get(&(index, 0)).cloned();
                        if count != Some(vec![k as u8]) {
                            out.violations.push(viol("array-count-wrong", format!("after sdo_write_array of {} values sub-index 0 holds {:?}", k, count)));
                        }
                        for (i, v) in vals.iter().enumerate() {
                            if od.get(&(index, i as u8 + 1)) != Some(&v.to_le_bytes().to_vec()) {
                                out.violations.push(viol("array-element-wrong", format!("sub-index {} holds {:?}, wrote {:#06x}", i + 1, od.get(&(index, i as u8 + 1)), v)));
                            }
                        }
                        // The order of the writes: count 0 first, elements, count last.
                        let w = &s.w.sim.seg.devices[0].coe.as_ref().unwrap().writes;
                        let tail: Vec<u8> = w.iter().rev().take(k + 2).rev().map(|x| x.1).collect();
                        let mut want: Vec<u8> = vec![0];
                        want.extend(1..=k as u8);
                        want.push(0);
                        if tail != want {
                            out.violations.push(viol("array-write-order", format!("sub-indices written in order {:?}, expected {:?}", tail, want)));
                        }
                    }
                }
                if out.violations.is_empty() {
                    match s.w.sim.block_on(sd.sdo_read_array::<u16, 8>(index)) {
                        Err(e) => out.violations.push(sim_error_violation("sdo_read_array", &e)),
                        Ok(Err(e)) => out.violations.push(viol("sdo-read-failed", format!("sdo_read_array({:#06x}) failed with {:?}", index, e))),
                        Ok(Ok(v)) => {
                            if v.as_slice() != vals.as_slice() {
                                out.violations.push(viol("array-read-wrong", format!("sdo_read_array returned {:04x?}, the device holds {:04x?}", v, vals)));
                            }
                        }
                    }
                }
            }
            // Abort codes.
            7 => {
                let code = s.w.sim.tape.pick(&[0x0602_0000u32, 0x0601_0002, 0x0503_0000, 0x0609_0011, 0x0800_0000, 0x1234_5678, 0x0607_0010, 0x0604_0043], "abort_code");
                s.w.sim.seg.devices[0].coe.as_mut().unwrap().aborts.insert((index, sub), code);
                let write = s.w.sim.tape.flag(50, 100, "abort_on_write");
                *kinds.entry("abort".into()).or_insert(0) += 1;
                ops_desc.push(format!("abort {:#06x}:{} code {:#010x} write {}", index, sub, code, write));
                let res = if write { s.w.sim.block_on(sd.sdo_write(index, sub, 1u16)).map(|r| r.map(|_| ())) } else { s.w.sim.block_on(sd.sdo_read::<u32>(index, sub)).map(|r| r.map(|_| ())) };
                match res {
                    Err(e) => out.violations.push(sim_error_violation("SDO request answered with an abort", &e)),
                    Ok(Err(Error::Mailbox(MailboxError::Aborted { code: c, address, sub_index }))) => {
                        if u32::from(c) != code || address != index || sub_index != sub {
                            out.violations.push(viol("abort-misreported", format!("device aborted {:#06x}:{} with {:#010x}; reported {:#06x}:{} {:#010x}", index, sub, code, address, sub_index, u32::from(c))));
                        }
                    }
                    Ok(other) => out.violations.push(viol("abort-not-reported", format!("device aborted {:#06x}:{} with {:#010x}; the call returned {:?}", index, sub, code, other))),
                }
            }
            // Emergency message queued before the reply.
            8 => {
                let ecode = 0x1000 + s.w.sim.tape.choose(0x1000, "emcy_code") as u16;
                let reg = s.w.sim.tape.choose(256, "emcy_reg") as u8;
                {
                    let coe = s.w.sim.seg.devices[0].coe.as_mut().unwrap();
                    coe.od.insert((index, sub), vec![1, 2, 3, 4]);
                    coe.emergency_before_next = Some((ecode, reg, [1, 2, 3, 4, 5]));
                }
                *kinds.entry("emergency".into()).or_insert(0) += 1;
                ops_desc.push(format!("emergency {:#06x} before the reply to a read of {:#06x}:{}", ecode, index, sub));
                match s.w.sim.block_on(sd.sdo_read::<u32>(index, sub)) {
                    Err(e) => out.violations.push(sim_error_violation("sdo_read answered with an emergency message", &e)),
                    Ok(Err(Error::Mailbox(MailboxError::Emergency { error_code, error_register }))) => {
                        if error_code != ecode || error_register != reg {
                            out.violations.push(viol("emergency-misreported", format!("device sent emergency {:#06x}/{:#04x}; reported {:#06x}/{:#04x}", ecode, reg, error_code, error_register)));
                        }
                    }
                    Ok(other) => out.violations.push(viol("emergency-not-reported", format!("device sent an emergency message; the call returned {:?}", other))),
                }
                // Drain the real reply so that the next operation starts clean.
                s.w.sim.seg.devices[0].mbx_out_full = false;
                while s.w.sim.seg.devices[0].coe.as_mut().unwrap().next_queued().is_some() {}
            }
            // Response for a different object; destination too small.
            _ => {
                if s.w.sim.tape.flag(50, 100, "foreign_or_toolong") {
                    {
                        let coe = s.w.sim.seg.devices[0].coe.as_mut().unwrap();
                        coe.od.insert((index, sub), vec![9, 9]);
                        coe.answer_other_object = true;
                    }
                    *kinds.entry("foreign-object".into()).or_insert(0) += 1;
                    ops_desc.push(format!("foreign object reply to {:#06x}:{}", index, sub));
                    let r = s.w.sim.block_on(sd.sdo_read::<u16>(index, sub));
                    s.w.sim.seg.devices[0].coe.as_mut().unwrap().answer_other_object = false;
                    match r {
                        Err(e) => out.violations.push(sim_error_violation("sdo_read answered for another object", &e)),
                        Ok(Err(Error::Mailbox(MailboxError::SdoResponseInvalid { .. }))) => {}
                        Ok(other) => out.violations.push(viol("foreign-response-accepted", format!("device answered for {:#06x} instead of {:#06x}; the call returned {:?}", index + 1, index, other))),
                    }
                } else {
                    let len = 9 + s.w.sim.tape.choose(60, "toolong_len");
                    {
                        let coe = s.w.sim.seg.devices[0].coe.as_mut().unwrap();
                        coe.od.insert((index, sub), obj_bytes(nonce, index, sub, len));
                        coe.policy = if s.w.sim.tape.flag(50, 100, "toolong_seg") { UploadPolicy::Segmented { first: 0, seg: 7 } } else { UploadPolicy::Auto };
                    }
                    *kinds.entry("too-long".into()).or_insert(0) += 1;
                    ops_desc.push(format!("{} byte object into a u64", len));
                    match s.w.sim.block_on(sd.sdo_read::<u64>(index, sub)) {
                        Err(e) => out.violations.push(sim_error_violation("sdo_read of an object larger than the destination", &e)),
                        Ok(Err(Error::Mailbox(MailboxError::TooLong { address, sub_index }))) => {
                            if address != index || sub_index != sub {
                                out.violations.push(viol("too-long-misreported", format!("TooLong reported for {:#06x}:{}, requested {:#06x}:{}", address, sub_index, index, sub)));
                            }
                        }
                        Ok(other) => out.violations.push(viol("too-long-not-reported", format!("a {} byte object read into a u64 returned {:?}", len, other))),
                    }
                    // Abort any transfer the device still thinks is in progress.
                    s.w.sim.seg.devices[0].coe.as_mut().unwrap().policy = UploadPolicy::Auto;
                }
            }
        }
    }
    // Every request carried a mailbox counter cycling through 1..7.
    if out.violations.is_empty() {
        let log = &s.w.sim.seg.devices[0].coe.as_ref().unwrap().log;
        let counters: Vec<u8> = log.iter().map(|l| l.counter).collect();
        for p in counters.windows(2) {
            let want = if p[0] >= 7 { 1 } else { p[0] + 1 };
            if p[1] != want || p[0] == 0 {
                out.violations.push(viol("mailbox-counter-sequence", format!("request counters {:?}", counters)));
                break;
            }
        }
    }
    desc["ops"] = json!(ops_desc);
    out.describe = desc;
    out.trace_hash = th.0;
    out.tape = s.w.sim.tape.consumed_values();
    out.steps = s.w.sim.stats.steps;
    out.sim_time_us = crate::clock::now();
    out.nontrivial = n_ops > 0;
    for (k, v) in kinds {
        out.probes.insert(k, v);
    }
    if !s.w.sim.seg.malformed.is_empty() && out.violations.is_empty() {
        out.violations.push(viol("malformed-frame", s.w.sim.seg.malformed[0].clone()));
    }
    drop(sd);
    out
}

pub fn c16_case(rs: u64, _nonce: u64, replay: Option<Vec<u32>>) -> CaseOutcome {
    let mut t = tape_of(rs, replay);
    let (mut s, mut desc) = match setup(&mut t, true) {
        Ok(x) => x,
        Err(o) => return o,
    };
    let mut out = CaseOutcome::default();
    let md = s.w.md();
    let sd = s.group.subdevice(md, 0).expect("device 0");
    let (_wlen, rlen) = s.mailbox;
    let mut th = TraceHash::default();
    th.add(rlen as u64);
    let n_ops = 1 + s.w.sim.tape.choose(4, "n_ops");
    let mut classes = std::collections::BTreeMap::new();
    let mut ops_desc = Vec::new();
    for opi in 0..n_ops {
        if !out.violations.is_empty() {
            break;
        }
        let index = 0x2100 + opi as u16;
        // Object and baseline policy.
        let len = s.w.sim.tape.pick(&[4usize, 1, 2, 8, 20, 100, 0, 300], "obj_len");
        let policy = match s.w.sim.tape.choose(3, "policy") {
            0 => UploadPolicy::Auto,
            1 => UploadPolicy::NeverExpedited,
            _ => UploadPolicy::Segmented { first: s.w.sim.tape.choose(8, "first"), seg: 1 + s.w.sim.tape.choose(12, "seg") },
        };
        // Mutations for the next 1..3 replies.
        let n_mut = 1 + s.w.sim.tape.choose(3, "n_mut");
        let mut muts = Vec::new();
        for _ in 0..n_mut {
            let m = match s.w.sim.tape.choose(if crate::tape::gen() >= 2 { 10 } else { 9 }, "mutation") {
                0 => Mutation::None,
                // A length field that claims somewhat more data than the object has (and than a
                // small destination holds), but not more than the mailbox could carry.
                9 => Mutation::SetLength((10 + len + 1 + s.w.sim.tape.choose(40, "len_over")).min(rlen as usize - 6) as u16),
                1 => {
                    // Header fields: length low/high, type/counter, service, command, index, sub, size...
                    let off = s.w.sim.tape.pick(&[0usize, 1, 5, 6, 7, 8, 9, 10, 11, 12, 13, 14, 15], "field_off");
                    Mutation::SetByte { off, val: s.w.sim.tape.choose(256, "field_val") as u8 }
                }
                2 => Mutation::SetLength(s.w.sim.tape.pick(&[0u16, 1, 2, 3, 7, 8, 9, 10, 0xffff, 0x8000, 0x0100, 0x7fff, 11], "len_val")),
                3 => Mutation::Truncate(s.w.sim.tape.choose(20, "trunc")),
                4 => Mutation::Raw((0..s.w.sim.tape.choose(rlen as usize + 1, "raw_len")).map(|_| s.w.sim.tape.choose(256, "raw_byte") as u8).collect()),
                5 => Mutation::FlipBit { off: s.w.sim.tape.choose(16, "flip_off"), bit: s.w.sim.tape.choose(8, "flip_bit") as u8 },
                6 => Mutation::SetByte { off: 7, val: 0x10 }, // service = emergency
                7 => Mutation::SetByte { off: 8, val: s.w.sim.tape.pick(&[0x80u8, 0x00, 0x20, 0x60, 0xe0, 0xa0], "cmd_val") },
                _ => Mutation::SetLength(s.w.sim.tape.choose(0x10000, "len_any") as u16),
            };
            muts.push(m);
        }
        let endless = s.w.sim.tape.flag(15, 100, "endless");
        let entry = s.w.sim.tape.choose(if crate::tape::gen() >= 2 { 9 } else { 6 }, "entry_point");
        {
            let coe = s.w.sim.seg.devices[0].coe.as_mut().unwrap();
            coe.od.insert((index, 0), (0..len).map(|i| i as u8 ^ 0x3c).collect());
            coe.od.insert((index, 1), vec![1, 0]);
            coe.policy = policy.clone();
            coe.mutations = muts.iter().cloned().collect();
            coe.endless_segments = endless;
            coe.endless_segments_empty = crate::tape::gen() >= 2 && endless && s.w.sim.tape.flag(40, 100, "endless_segments_empty");
            coe.endless_fragments = endless;
            coe.endless_payload = s.w.sim.tape.pick(&[2usize, 0, 6], "endless_payload");
            coe.info_fragment = s.w.sim.tape.pick(&[0usize, 2, 4, 6, 10], "info_fragment");
        }
        let name = ["sdo_read::<u32>", "sdo_read::<[u8;64]>", "sdo_write", "sdo_read_array", "sdo_info_object_description_list", "sdo_info_object_quantities", "sdo_read::<heapless::Vec<u8,8>>", "sdo_read::<heapless::String<16>>", "sdo_read::<heapless::Vec<u8,32>>"][entry];
        ops_desc.push(format!("{} on a {} byte object, policy {:?}, reply mutations {:?}, endless {}", name, len, policy, muts, endless));
        *classes.entry(format!("mbx_garbage/{}", name)).or_insert(0u64) += 1;
        th.add(entry as u64);
        th.add(len as u64);
        let res: Result<(), SimError> = match entry {
            0 => s.w.sim.block_on(sd.sdo_read::<u32>(index, 0)).map(|_| ()),
            1 => s.w.sim.block_on(sd.sdo_read::<[u8; 64]>(index, 0)).map(|_| ()),
            2 => s.w.sim.block_on(sd.sdo_write(index, 1, 0x1234u16)).map(|_| ()),
            3 => s.w.sim.block_on(sd.sdo_read_array::<u16, 4>(index)).map(|_| ()),
            4 => s.w.sim.block_on(sd.sdo_info_object_description_list(ObjectDescriptionListQuery::All)).map(|_| ()),
            6 => s.w.sim.block_on(sd.sdo_read::<heapless::Vec<u8, 8>>(index, 0)).map(|_| ()),
            7 => s.w.sim.block_on(sd.sdo_read::<heapless::String<16>>(index, 0)).map(|_| ()),
            8 => s.w.sim.block_on(sd.sdo_read::<heapless::Vec<u8, 32>>(index, 0)).map(|_| ()),
            _ => s.w.sim.block_on(sd.sdo_info_object_quantities()).map(|_| ()),
        };
        if let Err(e) = res {
            let mut v = sim_error_violation(&format!("{} with mutated mailbox replies {:?} (endless {})", name, muts, endless), &e);
            v.signature = format!("{}@{}", v.clause, name);
            out.violations.push(v);
        }
        // Reset the device's mailbox for the next operation.
        {
            let d = &mut s.w.sim.seg.devices[0];
            d.mbx_out_full = false;
            d.mbx_in_full = false;
            let coe = d.coe.as_mut().unwrap();
            coe.mutations.clear();
            coe.endless_segments = false;
            coe.endless_segments_empty = false;
            coe.endless_fragments = false;
            coe.endless_active = false;
            while coe.next_queued().is_some() {}
        }
    }
    desc["ops"] = json!(ops_desc);
    out.describe = desc;
    out.trace_hash = th.0;
    out.tape = s.w.sim.tape.consumed_values();
    out.steps = s.w.sim.stats.steps;
    out.sim_time_us = crate::clock::now();
    out.nontrivial = true;
    for (k, v) in classes {
        out.faults.insert(k, v);
    }
    drop(sd);
    out
}

pub fn run(id: &str, tier: &str, seed: u64, workers: usize) -> i32 {
    let thorough = tier == "thorough";
    let mut pr = PropertyRun::new(id, tier, seed, workers);
    pr.real_components = vec!["ethercrab CoE client (mailbox/coe/{mod, services, headers}), mailbox polling, init — real code", "PDU loop incl. ReceivedPdu views — real code"];
    pr.stub_components = vec!["CoE server of the simulated device (object dictionary, expedited/normal/segmented upload with drawn segment sizes, expedited download, aborts, emergencies, SDO information with fragmentation, reply mutation)", "mailbox sync managers of the simulated ESC", "clock, executor, NIC"];
    if id == "C15" {
        pr.assumptions = vec![
            "segmented uploads are answered as ETG.1000.6 prescribes: upload segment response command specifier 0, toggle, last-segment flag, <7 byte padding rule; the initiate response carries either only the complete size or the first fragment (both sub-configurations are generated and reported under separate signatures)".into(),
            "writes larger than four bytes are documented as unsupported and not generated".into(),
        ];
        let (runs, wall) = if thorough { (8_000_000u64, 600u64) } else { (400_000u64, 35u64) };
        pr.replay_witnesses("sdo-transfers", &c15_case);
        pr.batch("sdo-transfers", runs, wall, "one run = a CoE device with drawn mailbox sizes (16..1024) and 2..7 operations: reads of objects of 0..520 bytes into exactly fitting or roomy destinations under expedited/normal/segmented policies with drawn segment sizes and optional stale out-mailbox content, writes of 1/2/4 bytes, array helpers, every abort code class, emergency before the reply, reply for another object, object larger than the destination; then the mailbox counter sequence; distinct = hash of mailbox sizes and operation kinds", &c15_case);
    } else {
        let profile = if cfg!(debug_assertions) { "overflow-checks + debug-assertions" } else { "release arithmetic" };
        pr.extra.insert("arithmetic_profile".into(), json!(profile));
        pr.assumptions = vec![format!("built with {}; ./check C16 runs both profiles", profile), "budget 600000 executor steps per operation; mailbox timeouts are virtual".into()];
        let (runs, wall) = if thorough { (3_000_000u64, 300u64) } else { (40_000u64, 20u64) };
        pr.replay_witnesses("hostile-mailbox", &c16_case);
        pr.batch("hostile-mailbox", runs, wall, "one run = 1..4 SDO / SDO-info operations whose next 1..3 mailbox replies are mutated (random bytes, every header field byte set to a drawn value, length field 0..0xffff, truncation, bit flips, emergency service, every command specifier) optionally with endless more-segments / more-fragments; oracle = no panic, the call ends within the step budget; distinct = hash of (mailbox size, entry point, object size)", &c16_case);
    }
    pr.finish()
}
