//! The EtherCAT segment reference model: an ordered ring of simulated ESCs (tree topology for the
//! DC timing model), processing each frame the MainDevice transmits the way a real segment would.

pub mod coe;
pub mod device;
pub mod sii;

use crate::wire::{self, Datagram, Frame};
pub use device::*;

#[derive(Clone, Debug)]
pub struct DatagramRec {
    pub cmd: u8,
    pub idx: u8,
    pub addr: [u8; 4],
    pub len: u16,
    pub sent: Vec<u8>,
    pub returned: Vec<u8>,
    pub wkc: u16,
}

#[derive(Clone, Debug)]
pub struct FrameRec {
    pub time: u64,
    pub len: usize,
    pub datagrams: Vec<DatagramRec>,
}

#[derive(Clone)]
pub struct Topology {
    /// Parent device index and the parent's port number each device hangs off (None for the first).
    pub parent: Vec<Option<(usize, u8)>>,
    /// One-way cable delay (ns) of the link to the parent (or to the MainDevice for device 0).
    pub link_delay: Vec<u64>,
    /// Forwarding delay (ns) of each device, same in both directions.
    pub fwd_delay: Vec<u64>,
}

#[derive(Clone)]
pub struct Segment {
    pub devices: Vec<Device>,
    pub topo: Topology,
    pub log: Vec<FrameRec>,
    pub record: bool,
    pub frames: u64,
    pub datagrams: u64,
    /// Well-formedness violations seen by the wire monitor (C04 clause, checked on every frame).
    pub malformed: Vec<String>,
    pub max_frame: usize,
    /// Datagrams addressed to nobody / to registers outside the modelled contract.
    pub unexpected: Vec<String>,
    /// True arrival time (global ns) of the last latching broadcast at each device's port 0.
    pub true_arrival: Vec<u64>,
    /// Make device `.0`'s 32 bit local clock wrap `.1` ns after the latching frame enters the segment.
    pub wrap_after_latch: Option<(usize, u64)>,
    /// "Arbitrary device answers": when set, the bytes of a logical read/write answer that lie in
    /// an output (write-only FMMU) area come back holding noise derived from this value instead of
    /// what was sent. Devices consume outputs, nothing obliges the returned frame to still carry them.
    pub lrw_output_area_noise: Option<u64>,
}

impl Segment {
    /// A plain chain: every device hangs off port 1 of its predecessor... in EtherCAT order the first
    /// downstream port of a two-port device is port 1; junctions use ports 3, 1, 2 in that order.
    pub fn chain(devices: Vec<Device>) -> Self {
        let n = devices.len();
        let mut s = Segment {
            devices,
            topo: Topology {
                parent: (0..n).map(|i| if i == 0 { None } else { Some((i - 1, 1)) }).collect(),
                link_delay: vec![100; n],
                fwd_delay: vec![300; n],
            },
            log: Vec::new(),
            record: false,
            frames: 0,
            datagrams: 0,
            malformed: Vec::new(),
            max_frame: 1514,
            unexpected: Vec::new(),
            true_arrival: vec![0; n],
            wrap_after_latch: None,
            lrw_output_area_noise: None,
        };
        s.apply_topology_ports();
        s
    }

    /// Set every device's open ports from the topology.
    pub fn apply_topology_ports(&mut self) {
        let n = self.devices.len();
        for d in self.devices.iter_mut() {
            d.port_open = [true, false, false, false];
        }
        for i in 0..n {
            if let Some((p, port)) = self.topo.parent[i] {
                self.devices[p].port_open[port as usize] = true;
            }
        }
    }

    /// Children of device `i` in EtherCAT forwarding order (ports 3, 1, 2).
    fn children(&self, i: usize) -> Vec<(u8, usize)> {
        let mut out = Vec::new();
        for port in [3u8, 1, 2] {
            for (c, p) in self.topo.parent.iter().enumerate() {
                if *p == Some((i, port)) {
                    out.push((port, c));
                }
            }
        }
        out
    }

    /// Physical propagation of the time-latching broadcast: returns the time the frame leaves device
    /// `i` through port 0 again, having stamped every open port on the way.
    fn latch_walk(&mut self, i: usize, t_in: u64) -> u64 {
        let fwd = self.topo.fwd_delay[i];
        self.true_arrival[i] = t_in;
        let stamp = |dev: &mut Device, port: usize, t: u64| {
            if dev.dc_supported {
                let local = dev.local_time(t);
                let a = REG_DC_PORT0 + 4 * port;
                dev.mem[a..a + 4].copy_from_slice(&(local as u32).to_le_bytes());
                if port == 0 {
                    let v = if dev.dc_64bit { local } else { local & 0xffff_ffff };
                    dev.mem[REG_DC_RECV..REG_DC_RECV + 8].copy_from_slice(&v.to_le_bytes());
                }
            }
        };
        stamp(&mut self.devices[i], 0, t_in);
        // Processing unit + forwarding to the first open downstream port.
        let mut t = t_in + fwd;
        for (port, child) in self.children(i) {
            let link = self.topo.link_delay[child];
            let t_child_in = t + link;
            let t_child_out = self.latch_walk(child, t_child_in);
            let t_back = t_child_out + link;
            stamp(&mut self.devices[i], port as usize, t_back);
            t = t_back + fwd;
        }
        t
    }

    /// True one-way delay (ns) between the arrival of a frame at device `a` and at device `b` (a before b).
    pub fn true_delay(&self, a: usize, b: usize) -> u64 {
        self.true_arrival[b].saturating_sub(self.true_arrival[a])
    }

    /// Process one transmitted Ethernet frame at global time `now` (ns for DC purposes). Returns the
    /// frame as it comes back to the MainDevice, or `None` if there is no device to return it
    /// (an empty network returns the frame unchanged, as a looped-back cable would).
    pub fn process(&mut self, bytes: &[u8], now: u64) -> Vec<u8> {
        self.frames += 1;
        let frame = match wire::check_well_formed(bytes, self.max_frame) {
            Ok(f) => f,
            Err(why) => {
                if self.malformed.len() < 8 {
                    self.malformed.push(why);
                }
                match wire::decode(bytes) {
                    Ok(f) => f,
                    Err(_) => return bytes.to_vec(),
                }
            }
        };
        if self.devices.is_empty() {
            // Nothing processes the frame; it comes back as it went out (through a media converter
            // or similar that only marks the source address), every working counter still zero.
            return wire::encode_response(&frame);
        }
        let mut out: Frame = frame.clone();
        let mut recs = Vec::new();
        for d in out.datagrams.iter_mut() {
            let sent = d.data.clone();
            self.datagrams += 1;
            self.process_datagram(d, now);
            if let (Some(noise), true) = (self.lrw_output_area_noise, d.cmd == wire::CMD_LRW) {
                let base = d.logical() as u64;
                for dev in self.devices.iter() {
                    for k in 0..dev.fmmu_count as usize {
                        let f = dev.fmmu(k);
                        if !f.enabled || !f.write || f.read {
                            continue;
                        }
                        for j in 0..d.data.len() {
                            let a = base + j as u64;
                            if a >= f.logical as u64 && a < f.logical as u64 + f.len as u64 {
                                d.data[j] = crate::rng::mix(&[noise, a]) as u8;
                            }
                        }
                    }
                }
            }
            if self.record {
                recs.push(DatagramRec {
                    cmd: d.cmd,
                    idx: d.idx,
                    addr: frame.datagrams[recs.len()].addr,
                    len: d.len,
                    sent,
                    returned: d.data.clone(),
                    wkc: d.wkc,
                });
            }
        }
        if self.record {
            self.log.push(FrameRec {
                time: now,
                len: bytes.len(),
                datagrams: recs,
            });
        }
        wire::encode_response(&out)
    }

    fn process_datagram(&mut self, d: &mut Datagram, now: u64) {
        let n = self.devices.len();
        let ado = d.ado();
        let latch = matches!(d.cmd, wire::CMD_BWR | wire::CMD_APWR | wire::CMD_FPWR) && (ado as usize) <= REG_DC_PORT0 && (ado as usize + d.data.len()) > REG_DC_PORT0;
        if latch && d.cmd == wire::CMD_BWR {
            // Time stamps follow the physical path of the frame through the tree.
            let t0 = now + self.topo.link_delay[0];
            if let Some((dev, delta)) = self.wrap_after_latch {
                if dev < self.devices.len() {
                    self.devices[dev].clock_offset = (1i128 << 32) - (t0 + delta) as i128;
                }
            }
            self.latch_walk(0, t0);
        }
        let request = d.data.clone();
        for i in 0..n {
            let dev = &mut self.devices[i];
            let bump = |dev: &Device, d: &mut Datagram, inc: u16| {
                let inc = match dev.wkc_tamper {
                    Some(t) => t,
                    None => inc as i32,
                };
                d.wkc = (d.wkc as i32 + inc) as u16;
            };
            match d.cmd {
                wire::CMD_NOP => {}
                wire::CMD_APRD | wire::CMD_APWR | wire::CMD_APRW | wire::CMD_ARMW => {
                    let addressed = d.adp() == 0;
                    if addressed && dev.will_service(d.cmd, ado) {
                        match d.cmd {
                            wire::CMD_APRD | wire::CMD_ARMW => {
                                if dev.read(ado, &mut d.data, false, now) {
                                    bump(dev, d, 1);
                                }
                            }
                            wire::CMD_APWR => {
                                if dev.write(ado, &request, now) {
                                    bump(dev, d, 1);
                                }
                            }
                            _ => {
                                let r = dev.read(ado, &mut d.data, false, now);
                                let w = dev.write(ado, &request, now);
                                bump(dev, d, r as u16 + 2 * w as u16);
                            }
                        }
                    } else if d.cmd == wire::CMD_ARMW && !addressed && dev.will_service(d.cmd, ado) {
                        let data = d.data.clone();
                        if dev.write(ado, &data, now) {
                            bump(dev, d, 1);
                        }
                    }
                    let adp = d.adp().wrapping_add(1);
                    d.set_adp(adp);
                }
                wire::CMD_FPRD | wire::CMD_FPWR | wire::CMD_FPRW | wire::CMD_FRMW => {
                    let addressed = d.adp() == dev.station_address();
                    if addressed {
                        if dev.will_service(d.cmd, ado) {
                            match d.cmd {
                                wire::CMD_FPRD | wire::CMD_FRMW => {
                                    if dev.read(ado, &mut d.data, false, now) {
                                        bump(dev, d, 1);
                                    }
                                }
                                wire::CMD_FPWR => {
                                    if dev.write(ado, &request, now) {
                                        bump(dev, d, 1);
                                    }
                                }
                                _ => {
                                    let r = dev.read(ado, &mut d.data, false, now);
                                    let w = dev.write(ado, &request, now);
                                    bump(dev, d, r as u16 + 2 * w as u16);
                                }
                            }
                        }
                    } else if d.cmd == wire::CMD_FRMW {
                        // Everybody else takes over the value read from the addressed device (if it
                        // came before them in the ring).
                        if dev.dc_supported && dev.will_service(d.cmd, ado) {
                            let data = d.data.clone();
                            if dev.write(ado, &data, now) {
                                bump(dev, d, 1);
                            }
                        }
                    }
                }
                wire::CMD_BRD | wire::CMD_BWR | wire::CMD_BRW => {
                    if dev.will_service(d.cmd, ado) {
                        match d.cmd {
                            wire::CMD_BRD => {
                                if dev.read(ado, &mut d.data, true, now) {
                                    bump(dev, d, 1);
                                }
                            }
                            wire::CMD_BWR => {
                                // Only devices that implement the register count (DC registers exist
                                // only on DC devices).
                                let implemented = !((0x0900..0x0a00).contains(&(ado as usize)) && !dev.dc_supported);
                                if dev.write(ado, &request, now) && implemented {
                                    bump(dev, d, 1);
                                }
                            }
                            _ => {
                                let r = dev.read(ado, &mut d.data, true, now);
                                let w = dev.write(ado, &request, now);
                                bump(dev, d, r as u16 + 2 * w as u16);
                            }
                        }
                    }
                    let adp = d.adp().wrapping_add(1);
                    d.set_adp(adp);
                }
                wire::CMD_LRD | wire::CMD_LWR | wire::CMD_LRW => {
                    let do_read = d.cmd != wire::CMD_LWR;
                    let do_write = d.cmd != wire::CMD_LRD;
                    // Only devices in SAFE-OP/OP exchange process data; outputs only in OP.
                    let inputs_live = dev.al_state == ST_SAFEOP || dev.al_state == ST_OP;
                    let outputs_live = dev.al_state == ST_OP || dev.al_state == ST_SAFEOP;
                    let any_mapping = (0..dev.fmmu_count as usize).any(|k| {
                        let f = dev.fmmu(k);
                        f.enabled && (f.logical as u64) < d.logical() as u64 + d.data.len() as u64 && (f.logical as u64 + f.len as u64) > d.logical() as u64
                    });
                    if any_mapping && dev.will_service(d.cmd, ado) {
                        let (r, w) = dev.logical_access(d.logical(), &request, &mut d.data, do_read && inputs_live, do_write && outputs_live, now);
                        bump(dev, d, r as u16 + 2 * w as u16 * (d.cmd == wire::CMD_LRW) as u16 + (w && d.cmd == wire::CMD_LWR) as u16);
                    }
                }
                other => {
                    if self.unexpected.len() < 8 {
                        self.unexpected.push(format!("command {}", other));
                    }
                }
            }
        }
    }
}
