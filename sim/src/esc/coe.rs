//! A CoE (CANopen over EtherCAT) mailbox server: object dictionary, SDO upload (expedited, normal,
//! segmented), expedited download, aborts, emergencies, SDO information lists. ETG.1000.6 §5.6.

use std::collections::{BTreeMap, VecDeque};

#[derive(Clone, Debug, PartialEq, Eq)]
pub enum UploadPolicy {
    /// Expedited when <= 4 bytes, normal when it fits the mailbox, segmented otherwise.
    Auto,
    /// Never answer expedited (a device may always answer with a normal response).
    NeverExpedited,
    /// Always use a segmented transfer for objects larger than `first` bytes: the initiate response
    /// carries `first` bytes (0 = only the complete size), segments carry at most `seg` bytes.
    Segmented { first: usize, seg: usize },
}

#[derive(Clone, Debug, PartialEq, Eq)]
pub enum Mutation {
    None,
    /// Replace byte `off` of the reply (counted from the mailbox header) with `val`.
    SetByte { off: usize, val: u8 },
    /// Overwrite the mailbox header's length field.
    SetLength(u16),
    /// Cut the reply to `n` bytes (the rest of the mailbox keeps its previous content).
    Truncate(usize),
    /// Replace the whole reply.
    Raw(Vec<u8>),
    /// XOR a bit.
    FlipBit { off: usize, bit: u8 },
}

#[derive(Clone, Debug)]
pub struct RequestLog {
    pub counter: u8,
    pub service: u8,
    pub command: u8,
    pub index: u16,
    pub sub: u8,
    pub complete: bool,
    pub data: Vec<u8>,
    pub raw_len_field: u16,
}

#[derive(Clone)]
pub struct CoeServer {
    pub od: BTreeMap<(u16, u8), Vec<u8>>,
    pub policy: UploadPolicy,
    /// Abort every request touching this (index, sub) with the code.
    pub aborts: BTreeMap<(u16, u8), u32>,
    /// Answer the next request with an emergency message first.
    pub emergency_before_next: Option<(u16, u8, [u8; 5])>,
    /// Answer with the response for a different object (index offset).
    pub answer_other_object: bool,
    /// Mutations applied to successive replies (front first); when empty, replies are unmodified.
    pub mutations: VecDeque<Mutation>,
    /// Keep answering segment requests with "more follows" forever.
    pub endless_segments: bool,
    /// In endless mode, once the object's data is used up the further segments carry no data at all.
    pub endless_segments_empty: bool,
    /// Keep answering SDO info with "incomplete" forever.
    pub endless_fragments: bool,
    /// Payload bytes of each further fragment in endless mode (0 = empty fragments).
    pub endless_payload: usize,
    pub endless_active: bool,
    pub log: Vec<RequestLog>,
    counter: u8,
    /// Segmented upload in progress: remaining data and expected toggle.
    seg: Option<(Vec<u8>, bool, usize)>,
    queued: VecDeque<Vec<u8>>,
    /// SDO info object lists by list type (1..=5).
    pub info_lists: BTreeMap<u16, Vec<u16>>,
    /// Size of fragments for SDO info responses (payload bytes per fragment), 0 = as large as fits.
    pub info_fragment: usize,
    pub writes: Vec<(u16, u8, Vec<u8>, bool)>,
}

fn mbx_header(len: u16, ty: u8, counter: u8) -> Vec<u8> {
    let mut v = Vec::with_capacity(6 + len as usize);
    v.extend_from_slice(&len.to_le_bytes());
    v.extend_from_slice(&[0, 0]); // address
    v.push(0); // channel + priority
    v.push((ty & 0x0f) | ((counter & 0x07) << 4));
    v
}

impl CoeServer {
    pub fn new() -> Self {
        CoeServer {
            od: BTreeMap::new(),
            policy: UploadPolicy::Auto,
            aborts: BTreeMap::new(),
            emergency_before_next: None,
            answer_other_object: false,
            mutations: VecDeque::new(),
            endless_segments: false,
            endless_segments_empty: false,
            endless_fragments: false,
            endless_payload: 2,
            endless_active: false,
            log: Vec::new(),
            counter: 0,
            seg: None,
            queued: VecDeque::new(),
            info_lists: BTreeMap::new(),
            info_fragment: 0,
            writes: Vec::new(),
        }
    }

    fn next_counter(&mut self) -> u8 {
        self.counter = if self.counter >= 7 { 1 } else { self.counter + 1 };
        self.counter
    }

    pub fn next_queued(&mut self) -> Option<Vec<u8>> {
        if self.queued.is_empty() && self.endless_fragments && self.endless_active {
            // A device that never stops announcing more fragments.
            let mut b = vec![0x82, 0, 1, 0];
            b.extend(std::iter::repeat(0x11).take(self.endless_payload));
            return Some(self.coe(8, &b));
        }
        self.queued.pop_front()
    }

    pub fn queue_front(&mut self, reply: Vec<u8>) {
        self.queued.push_front(reply);
    }

    fn coe(&mut self, service: u8, body: &[u8]) -> Vec<u8> {
        let c = self.next_counter();
        let mut v = mbx_header((2 + body.len()) as u16, 3, c);
        v.extend_from_slice(&[0x00, service << 4]);
        v.extend_from_slice(body);
        v
    }

    fn abort(&mut self, index: u16, sub: u8, code: u32) -> Vec<u8> {
        let mut b = vec![0x80];
        b.extend_from_slice(&index.to_le_bytes());
        b.push(sub);
        b.extend_from_slice(&code.to_le_bytes());
        self.coe(3, &b) // aborts travel as SDO responses here (service 3); SDO request (2) is also seen in the field
    }

    fn object_bytes(&self, index: u16, sub: u8, complete: bool) -> Option<Vec<u8>> {
        if !complete {
            return self.od.get(&(index, sub)).cloned();
        }
        // Complete access: sub 0 padded to 16 bit, then all further sub-indices in order.
        let mut out = Vec::new();
        let mut any = false;
        for ((i, s), v) in self.od.range((index, 0)..=(index, 255)) {
            debug_assert_eq!(*i, index);
            any = true;
            if *s == 0 {
                if sub == 0 {
                    out.extend_from_slice(v);
                    out.push(0);
                }
            } else {
                out.extend_from_slice(v);
            }
        }
        any.then_some(out)
    }

    fn segment_reply(&mut self, toggle: bool) -> Vec<u8> {
        let Some((mut rest, expect, seg)) = self.seg.take() else {
            return self.abort(0, 0, 0x0504_0001); // command specifier not valid
        };
        if toggle != expect {
            return self.abort(0, 0, 0x0503_0000); // toggle bit not changed
        }
        let n = rest.len().min(seg.max(1));
        let chunk: Vec<u8> = rest.drain(..n).collect();
        let last = rest.is_empty() && !self.endless_segments;
        let (unused, pad) = if n < 7 { ((7 - n) as u8, 7 - n) } else { (0, 0) };
        let mut b = vec![(last as u8) | (unused << 1) | ((toggle as u8) << 4)];
        b.extend_from_slice(&chunk);
        b.extend(std::iter::repeat(0).take(pad));
        if !last {
            if rest.is_empty() && !self.endless_segments_empty {
                // endless mode: keep producing data
                rest = vec![0xEE; seg.max(1)];
            }
            self.seg = Some((rest, !expect, seg));
        }
        self.coe(3, &b)
    }

    fn upload_reply(&mut self, index: u16, sub: u8, complete: bool, out_len: usize) -> Vec<u8> {
        let (ri, rs) = if self.answer_other_object { (index.wrapping_add(1), sub) } else { (index, sub) };
        let Some(data) = self.object_bytes(index, sub, complete) else {
            return self.abort(index, sub, 0x0602_0000); // object does not exist
        };
        let cap = out_len.saturating_sub(6 + 2 + 4 + 4); // room for data in a normal response
        let expedited_ok = data.len() <= 4 && !data.is_empty() && self.policy != UploadPolicy::NeverExpedited && !matches!(self.policy, UploadPolicy::Segmented { .. });
        if expedited_ok {
            let n = data.len();
            let mut b = vec![0x43 | (((4 - n) as u8) << 2) | ((complete as u8) << 4)];
            b.extend_from_slice(&ri.to_le_bytes());
            b.push(rs);
            b.extend_from_slice(&data);
            b.extend(std::iter::repeat(0).take(4 - n));
            return self.coe(3, &b);
        }
        let (first, seg) = match &self.policy {
            UploadPolicy::Segmented { first, seg } if data.len() > *first => ((*first).min(cap), (*seg).min(out_len.saturating_sub(6 + 3)).max(1)),
            _ if data.len() <= cap => (data.len(), 0),
            _ => (cap, out_len.saturating_sub(6 + 3).max(1)),
        };
        let mut b = vec![0x41 | ((complete as u8) << 4)];
        b.extend_from_slice(&ri.to_le_bytes());
        b.push(rs);
        b.extend_from_slice(&(data.len() as u32).to_le_bytes());
        b.extend_from_slice(&data[..first]);
        if first < data.len() {
            self.seg = Some((data[first..].to_vec(), false, seg));
        }
        self.coe(3, &b)
    }

    fn info_reply(&mut self, body: &[u8], out_len: usize) -> Option<Vec<u8>> {
        // body: opcode/incomplete, reserved, fragments left (2), list type (2)
        let opcode = body.first()? & 0x7f;
        if opcode != 0x01 {
            let mut b = vec![0x07, 0, 0, 0];
            b.extend_from_slice(&0x0601_0000u32.to_le_bytes());
            return Some(self.coe(8, &b));
        }
        let list_type = u16::from_le_bytes([*body.get(4)?, *body.get(5)?]);
        let mut payload: Vec<u8> = Vec::new();
        payload.extend_from_slice(&list_type.to_le_bytes());
        if list_type == 0 {
            for t in 1..=5u16 {
                let n = self.info_lists.get(&t).map_or(0, |l| l.len()) as u16;
                payload.extend_from_slice(&n.to_le_bytes());
            }
        } else {
            for idx in self.info_lists.get(&list_type).cloned().unwrap_or_default() {
                payload.extend_from_slice(&idx.to_le_bytes());
            }
        }
        // Fragment: each fragment carries the 4 byte SDO info header + a slice of the payload.
        let room = out_len.saturating_sub(6 + 2 + 4).max(2);
        let per = if self.info_fragment == 0 { room } else { self.info_fragment.min(room).max(2) };
        let chunks: Vec<Vec<u8>> = if payload.is_empty() { vec![vec![]] } else { payload.chunks(per).map(|c| c.to_vec()).collect() };
        let total = chunks.len();
        let mut replies = Vec::new();
        for (i, c) in chunks.into_iter().enumerate() {
            let left = (total - 1 - i) as u16;
            let incomplete = left > 0 || self.endless_fragments;
            let mut b = vec![0x02 | ((incomplete as u8) << 7), 0];
            b.extend_from_slice(&left.to_le_bytes());
            b.extend_from_slice(&c);
            replies.push(self.coe(8, &b));
        }
        self.endless_active = self.endless_fragments;
        let mut it = replies.into_iter();
        let first = it.next();
        for r in it {
            self.queued.push_back(r);
        }
        first
    }

    /// Handle one request (the full content of the write mailbox). `out_len` is the size of the read mailbox.
    pub fn handle(&mut self, req: &[u8], out_len: usize) -> Option<Vec<u8>> {
        if req.len() < 8 {
            return None;
        }
        let len_field = u16::from_le_bytes([req[0], req[1]]);
        let ty = req[5] & 0x0f;
        let counter = (req[5] >> 4) & 0x07;
        let service = req[7] >> 4;
        let body = &req[8..];
        let mut log = RequestLog {
            counter,
            service,
            command: body.first().map_or(0, |b| b >> 5),
            index: 0,
            sub: 0,
            complete: false,
            data: Vec::new(),
            raw_len_field: len_field,
        };
        if ty != 3 {
            self.log.push(log);
            // Mailbox error reply: type 0, detail "unsupported protocol".
            let c = self.next_counter();
            let mut v = mbx_header(4, 0, c);
            v.extend_from_slice(&[0x01, 0x00, 0x02, 0x00]);
            return Some(self.finish(v));
        }
        let reply = if service == 8 {
            self.log.push(log);
            self.info_reply(body, out_len)?
        } else if service == 2 {
            let cmd = body.first().copied().unwrap_or(0);
            let ccs = cmd >> 5;
            if ccs == 3 {
                // Upload segment request.
                log.command = 3;
                self.log.push(log);
                let toggle = cmd & 0x10 != 0;
                self.segment_reply(toggle)
            } else {
                if body.len() < 4 {
                    self.log.push(log);
                    return None;
                }
                let index = u16::from_le_bytes([body[1], body[2]]);
                let sub = body[3];
                let complete = cmd & 0x10 != 0;
                log.index = index;
                log.sub = sub;
                log.complete = complete;
                if let Some(code) = self.aborts.get(&(index, sub)).copied() {
                    self.log.push(log);
                    self.seg = None;
                    self.abort(index, sub, code)
                } else if ccs == 2 {
                    self.log.push(log);
                    self.seg = None;
                    self.upload_reply(index, sub, complete, out_len)
                } else if ccs == 1 {
                    // Download: expedited only (what the MainDevice under test sends).
                    let expedited = cmd & 0x02 != 0;
                    let size_ind = cmd & 0x01 != 0;
                    let data: Vec<u8> = if expedited {
                        let n = if size_ind { 4 - ((cmd >> 2) & 0x03) as usize } else { 4 };
                        body.get(4..4 + n).unwrap_or(&[]).to_vec()
                    } else {
                        let n = u32::from_le_bytes([body[4], body[5], body[6], body[7]]) as usize;
                        body.get(8..8 + n).unwrap_or(&[]).to_vec()
                    };
                    log.data = data.clone();
                    self.log.push(log);
                    self.writes.push((index, sub, data.clone(), complete));
                    self.od.insert((index, sub), data);
                    let (ri, rs) = if self.answer_other_object { (index.wrapping_add(1), sub) } else { (index, sub) };
                    let mut b = vec![0x60 | ((complete as u8) << 4)];
                    b.extend_from_slice(&ri.to_le_bytes());
                    b.push(rs);
                    b.extend_from_slice(&[0, 0, 0, 0]);
                    self.coe(3, &b)
                } else if ccs == 4 {
                    self.log.push(log);
                    self.seg = None;
                    return None; // master aborted
                } else {
                    self.log.push(log);
                    self.abort(index, sub, 0x0504_0001)
                }
            }
        } else {
            self.log.push(log);
            let c = self.next_counter();
            let mut v = mbx_header(4, 0, c);
            v.extend_from_slice(&[0x01, 0x00, 0x06, 0x00]);
            v
        };
        if let Some((code, reg, data)) = self.emergency_before_next.take() {
            // The emergency goes out first; the real reply follows when the mailbox is read.
            let mut b = Vec::new();
            b.extend_from_slice(&code.to_le_bytes());
            b.push(reg);
            b.extend_from_slice(&data);
            let e = self.coe(1, &b);
            self.queued.push_back(reply);
            return Some(self.finish(e));
        }
        Some(self.finish(reply))
    }

    fn finish(&mut self, mut reply: Vec<u8>) -> Vec<u8> {
        match self.mutations.pop_front().unwrap_or(Mutation::None) {
            Mutation::None => {}
            Mutation::SetByte { off, val } => {
                if reply.len() <= off {
                    reply.resize(off + 1, 0);
                }
                reply[off] = val;
            }
            Mutation::SetLength(l) => {
                reply[0..2].copy_from_slice(&l.to_le_bytes());
            }
            Mutation::Truncate(n) => reply.truncate(n),
            Mutation::Raw(r) => reply = r,
            Mutation::FlipBit { off, bit } => {
                if off < reply.len() {
                    reply[off] ^= 1 << (bit & 7);
                }
            }
        }
        reply
    }
}
