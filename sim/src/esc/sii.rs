//! SII/EEPROM images: a device description, an image builder and an *independent* parser of the
//! ETG.2010 layout (no ethercrab type is used here).

use crate::tape::Tape;

#[derive(Clone, Debug, PartialEq, Eq)]
pub struct SmDesc {
    pub start: u16,
    pub length: u16,
    pub control: u8,
    pub enable: u8,
    /// 1 mailbox write, 2 mailbox read, 3 process data write (outputs), 4 process data read (inputs), 0 unknown
    pub usage: u8,
}

#[derive(Clone, Debug, PartialEq, Eq)]
pub struct PdoEntryDesc {
    pub index: u16,
    pub sub: u8,
    pub name_idx: u8,
    pub data_type: u8,
    pub bit_len: u8,
    pub flags: u16,
}

#[derive(Clone, Debug, PartialEq, Eq)]
pub struct PdoDesc {
    pub index: u16,
    pub sm: u8,
    pub dc_sync: u8,
    pub name_idx: u8,
    pub flags: u16,
    pub entries: Vec<PdoEntryDesc>,
}

impl PdoDesc {
    pub fn bit_len(&self) -> u32 {
        self.entries.iter().map(|e| e.bit_len as u32).sum()
    }
}

#[derive(Clone, Debug, PartialEq, Eq)]
pub struct MailboxDesc {
    pub recv_offset: u16,
    pub recv_size: u16,
    pub send_offset: u16,
    pub send_size: u16,
    pub protocols: u16,
}

#[derive(Clone, Debug, PartialEq, Eq)]
pub struct GeneralDesc {
    pub group_idx: u8,
    pub image_idx: u8,
    pub order_idx: u8,
    pub name_idx: u8,
    pub coe_details: u8,
    pub foe: u8,
    pub eoe: u8,
    pub flags: u8,
    pub ebus_current: i16,
    pub ports: u16,
    pub phys_mem: u16,
}

#[derive(Clone, Debug, PartialEq, Eq)]
pub enum Category {
    Strings(Vec<Vec<u8>>),
    General(GeneralDesc),
    Fmmu(Vec<u8>),
    SyncManagers(Vec<SmDesc>),
    FmmuEx(Vec<[u8; 3]>),
    TxPdo(Vec<PdoDesc>),
    RxPdo(Vec<PdoDesc>),
    /// Any other category, kept as raw words (type, data).
    Other(u16, Vec<u8>),
}

impl Category {
    pub fn type_code(&self) -> u16 {
        match self {
            Category::Strings(_) => 10,
            Category::General(_) => 30,
            Category::Fmmu(_) => 40,
            Category::SyncManagers(_) => 41,
            Category::FmmuEx(_) => 42,
            Category::TxPdo(_) => 50,
            Category::RxPdo(_) => 51,
            Category::Other(t, _) => *t,
        }
    }
}

#[derive(Clone, Debug, PartialEq, Eq)]
pub struct Header {
    pub pdi_control: u16,
    pub pdi_config: u16,
    pub sync_impulse: u16,
    pub pdi_config2: u16,
    pub alias: u16,
    pub reserved5_6: [u16; 2],
    pub checksum: u16,
    pub vendor: u32,
    pub product: u32,
    pub revision: u32,
    pub serial: u32,
    pub reserved_10_13: [u16; 4],
    pub boot_mbx: [u16; 4],
    pub mailbox: MailboxDesc,
    /// EEPROM size word: size in KBit - 1.
    pub size_word: u16,
    pub version: u16,
}

#[derive(Clone, Debug, PartialEq, Eq)]
pub struct Image {
    pub header: Header,
    pub categories: Vec<Category>,
    /// Whether an end marker (0xFFFF) follows the last category.
    pub end_marker: bool,
}

pub fn crc8(bytes: &[u8]) -> u8 {
    // CRC-8, polynomial 0x07, initial value 0xFF, no reflection, no final xor.
    let mut crc = 0xffu8;
    for b in bytes {
        crc ^= *b;
        for _ in 0..8 {
            crc = if crc & 0x80 != 0 { (crc << 1) ^ 0x07 } else { crc << 1 };
        }
    }
    crc
}

fn push16(v: &mut Vec<u8>, x: u16) {
    v.extend_from_slice(&x.to_le_bytes());
}

fn push32(v: &mut Vec<u8>, x: u32) {
    v.extend_from_slice(&x.to_le_bytes());
}

fn pdo_bytes(pdos: &[PdoDesc]) -> Vec<u8> {
    let mut v = Vec::new();
    for p in pdos {
        push16(&mut v, p.index);
        v.push(p.entries.len() as u8);
        v.push(p.sm);
        v.push(p.dc_sync);
        v.push(p.name_idx);
        push16(&mut v, p.flags);
        for e in &p.entries {
            push16(&mut v, e.index);
            v.push(e.sub);
            v.push(e.name_idx);
            v.push(e.data_type);
            v.push(e.bit_len);
            push16(&mut v, e.flags);
        }
    }
    v
}

pub fn category_bytes(c: &Category) -> Vec<u8> {
    let mut v = Vec::new();
    match c {
        Category::Strings(strings) => {
            v.push(strings.len() as u8);
            for s in strings {
                v.push(s.len() as u8);
                v.extend_from_slice(s);
            }
        }
        Category::General(g) => {
            v.extend_from_slice(&[g.group_idx, g.image_idx, g.order_idx, g.name_idx, 0, g.coe_details, g.foe, g.eoe, 0, 0, 0, g.flags]);
            v.extend_from_slice(&g.ebus_current.to_le_bytes());
            push16(&mut v, g.ports);
            push16(&mut v, g.phys_mem);
            v.extend(std::iter::repeat(0).take(32 - v.len()));
        }
        Category::Fmmu(u) => v.extend_from_slice(u),
        Category::SyncManagers(sms) => {
            for s in sms {
                push16(&mut v, s.start);
                push16(&mut v, s.length);
                v.push(s.control);
                v.push(0);
                v.push(s.enable);
                v.push(s.usage);
            }
        }
        Category::FmmuEx(x) => {
            for e in x {
                v.extend_from_slice(e);
            }
        }
        Category::TxPdo(p) | Category::RxPdo(p) => v = pdo_bytes(p),
        Category::Other(_, d) => v.extend_from_slice(d),
    }
    if v.len() % 2 == 1 {
        v.push(0);
    }
    v
}

impl Image {
    /// Encode into bytes, padded with 0xFF to the size the size word declares (at least the content).
    pub fn encode(&self, fix_checksum: bool) -> Vec<u8> {
        let h = &self.header;
        let mut v = Vec::new();
        push16(&mut v, h.pdi_control);
        push16(&mut v, h.pdi_config);
        push16(&mut v, h.sync_impulse);
        push16(&mut v, h.pdi_config2);
        push16(&mut v, h.alias);
        push16(&mut v, h.reserved5_6[0]);
        push16(&mut v, h.reserved5_6[1]);
        let cs = if fix_checksum { crc8(&v[0..14]) as u16 } else { h.checksum };
        push16(&mut v, cs);
        push32(&mut v, h.vendor);
        push32(&mut v, h.product);
        push32(&mut v, h.revision);
        push32(&mut v, h.serial);
        for r in h.reserved_10_13 {
            push16(&mut v, r);
        }
        for r in h.boot_mbx {
            push16(&mut v, r);
        }
        push16(&mut v, h.mailbox.recv_offset);
        push16(&mut v, h.mailbox.recv_size);
        push16(&mut v, h.mailbox.send_offset);
        push16(&mut v, h.mailbox.send_size);
        push16(&mut v, h.mailbox.protocols);
        while v.len() < 0x3e * 2 {
            v.push(0);
        }
        push16(&mut v, h.size_word);
        push16(&mut v, h.version);
        for c in &self.categories {
            let data = category_bytes(c);
            push16(&mut v, c.type_code());
            push16(&mut v, (data.len() / 2) as u16);
            v.extend_from_slice(&data);
        }
        if self.end_marker {
            push16(&mut v, 0xffff);
        }
        let declared = (h.size_word as usize + 1) * 128;
        if v.len() < declared {
            v.resize(declared, 0xff);
        }
        v
    }
}

#[derive(Debug, Clone, PartialEq, Eq)]
pub enum ParseError {
    TooShort,
    CategoryOverrun { at_word: usize },
    Malformed(&'static str),
}

fn r16(b: &[u8], word: usize) -> Result<u16, ParseError> {
    b.get(word * 2..word * 2 + 2).map(|s| u16::from_le_bytes([s[0], s[1]])).ok_or(ParseError::TooShort)
}

fn r32(b: &[u8], word: usize) -> Result<u32, ParseError> {
    Ok(r16(b, word)? as u32 | ((r16(b, word + 1)? as u32) << 16))
}

fn parse_pdos(d: &[u8]) -> Result<Vec<PdoDesc>, ParseError> {
    let mut out = Vec::new();
    let mut pos = 0;
    while pos + 8 <= d.len() {
        let index = u16::from_le_bytes([d[pos], d[pos + 1]]);
        let n = d[pos + 2] as usize;
        let mut p = PdoDesc {
            index,
            sm: d[pos + 3],
            dc_sync: d[pos + 4],
            name_idx: d[pos + 5],
            flags: u16::from_le_bytes([d[pos + 6], d[pos + 7]]),
            entries: Vec::new(),
        };
        pos += 8;
        for _ in 0..n {
            if pos + 8 > d.len() {
                return Err(ParseError::Malformed("PDO entries run past the category"));
            }
            p.entries.push(PdoEntryDesc {
                index: u16::from_le_bytes([d[pos], d[pos + 1]]),
                sub: d[pos + 2],
                name_idx: d[pos + 3],
                data_type: d[pos + 4],
                bit_len: d[pos + 5],
                flags: u16::from_le_bytes([d[pos + 6], d[pos + 7]]),
            });
            pos += 8;
        }
        out.push(p);
    }
    Ok(out)
}

/// Parse an image. Trailing odd padding bytes inside categories are dropped where the category
/// content defines its own length (strings, FMMU usage).
pub fn parse(b: &[u8]) -> Result<Image, ParseError> {
    if b.len() < 0x80 {
        return Err(ParseError::TooShort);
    }
    let header = Header {
        pdi_control: r16(b, 0)?,
        pdi_config: r16(b, 1)?,
        sync_impulse: r16(b, 2)?,
        pdi_config2: r16(b, 3)?,
        alias: r16(b, 4)?,
        reserved5_6: [r16(b, 5)?, r16(b, 6)?],
        checksum: r16(b, 7)?,
        vendor: r32(b, 8)?,
        product: r32(b, 0xa)?,
        revision: r32(b, 0xc)?,
        serial: r32(b, 0xe)?,
        reserved_10_13: [r16(b, 0x10)?, r16(b, 0x11)?, r16(b, 0x12)?, r16(b, 0x13)?],
        boot_mbx: [r16(b, 0x14)?, r16(b, 0x15)?, r16(b, 0x16)?, r16(b, 0x17)?],
        mailbox: MailboxDesc {
            recv_offset: r16(b, 0x18)?,
            recv_size: r16(b, 0x19)?,
            send_offset: r16(b, 0x1a)?,
            send_size: r16(b, 0x1b)?,
            protocols: r16(b, 0x1c)?,
        },
        size_word: r16(b, 0x3e)?,
        version: r16(b, 0x3f)?,
    };
    let mut categories = Vec::new();
    let mut w = 0x40usize;
    let mut end_marker = false;
    loop {
        let Ok(t) = r16(b, w) else { break };
        if t == 0xffff {
            end_marker = true;
            break;
        }
        let len = r16(b, w + 1)? as usize;
        let start = (w + 2) * 2;
        let end = start + len * 2;
        let Some(d) = b.get(start..end) else {
            return Err(ParseError::CategoryOverrun { at_word: w });
        };
        let c = match t {
            10 => {
                let mut strings = Vec::new();
                if let Some(&n) = d.first() {
                    let mut pos = 1;
                    for _ in 0..n {
                        let Some(&l) = d.get(pos) else {
                            return Err(ParseError::Malformed("string table runs past the category"));
                        };
                        let Some(s) = d.get(pos + 1..pos + 1 + l as usize) else {
                            return Err(ParseError::Malformed("string runs past the category"));
                        };
                        strings.push(s.to_vec());
                        pos += 1 + l as usize;
                    }
                }
                Category::Strings(strings)
            }
            30 => {
                if d.len() < 20 {
                    return Err(ParseError::Malformed("general category shorter than 20 bytes"));
                }
                Category::General(GeneralDesc {
                    group_idx: d[0],
                    image_idx: d[1],
                    order_idx: d[2],
                    name_idx: d[3],
                    coe_details: d[5],
                    foe: d[6],
                    eoe: d[7],
                    flags: d[11],
                    ebus_current: i16::from_le_bytes([d[12], d[13]]),
                    ports: u16::from_le_bytes([d[14], d[15]]),
                    phys_mem: u16::from_le_bytes([d[16], d[17]]),
                })
            }
            40 => Category::Fmmu(d.to_vec()),
            41 => {
                let mut sms = Vec::new();
                for c in d.chunks_exact(8) {
                    sms.push(SmDesc {
                        start: u16::from_le_bytes([c[0], c[1]]),
                        length: u16::from_le_bytes([c[2], c[3]]),
                        control: c[4],
                        enable: c[6],
                        usage: c[7],
                    });
                }
                Category::SyncManagers(sms)
            }
            42 => Category::FmmuEx(d.chunks_exact(3).map(|c| [c[0], c[1], c[2]]).collect()),
            50 => Category::TxPdo(parse_pdos(d)?),
            51 => Category::RxPdo(parse_pdos(d)?),
            other => Category::Other(other, d.to_vec()),
        };
        categories.push(c);
        w += 2 + len;
    }
    Ok(Image {
        header,
        categories,
        end_marker,
    })
}

impl Image {
    pub fn strings(&self) -> Option<&Vec<Vec<u8>>> {
        self.categories.iter().find_map(|c| if let Category::Strings(s) = c { Some(s) } else { None })
    }
    pub fn general(&self) -> Option<&GeneralDesc> {
        self.categories.iter().find_map(|c| if let Category::General(g) = c { Some(g) } else { None })
    }
    pub fn sync_managers(&self) -> Vec<SmDesc> {
        self.categories.iter().find_map(|c| if let Category::SyncManagers(s) = c { Some(s.clone()) } else { None }).unwrap_or_default()
    }
    pub fn fmmus(&self) -> Vec<u8> {
        self.categories.iter().find_map(|c| if let Category::Fmmu(s) = c { Some(s.clone()) } else { None }).unwrap_or_default()
    }
    pub fn fmmu_ex(&self) -> Vec<[u8; 3]> {
        self.categories.iter().find_map(|c| if let Category::FmmuEx(s) = c { Some(s.clone()) } else { None }).unwrap_or_default()
    }
    pub fn tx_pdos(&self) -> Vec<PdoDesc> {
        self.categories.iter().find_map(|c| if let Category::TxPdo(s) = c { Some(s.clone()) } else { None }).unwrap_or_default()
    }
    pub fn rx_pdos(&self) -> Vec<PdoDesc> {
        self.categories.iter().find_map(|c| if let Category::RxPdo(s) = c { Some(s.clone()) } else { None }).unwrap_or_default()
    }

    /// The string with 1-based index `idx` as a "visible string" (NULs removed, non-ASCII -> '?'),
    /// which is how a MainDevice is expected to present it.
    pub fn visible_string(&self, idx: u8) -> Option<String> {
        if idx == 0 {
            return None;
        }
        let s = self.strings()?.get(idx as usize - 1)?;
        Some(s.iter().filter(|c| **c != 0).map(|c| if c.is_ascii() { *c as char } else { '?' }).collect())
    }
}

/// Draw a well-formed image: reserved bits zero, enumerated fields within their defined values.
#[derive(Clone, Debug)]
pub struct GenOpts {
    pub max_strings: usize,
    pub max_string_len: usize,
    pub max_pdos: usize,
    pub max_entries: usize,
    pub allow_unknown_categories: bool,
    pub shuffle_categories: bool,
}

impl Default for GenOpts {
    fn default() -> Self {
        GenOpts {
            max_strings: 12,
            max_string_len: 40,
            max_pdos: 6,
            max_entries: 6,
            allow_unknown_categories: true,
            shuffle_categories: true,
        }
    }
}

pub fn gen_string(t: &mut Tape, max_len: usize) -> Vec<u8> {
    let mut n = t.choose(max_len + 1, "str_len");
    // Lengths at the capacities a MainDevice keeps strings in (64 for names, 128 for descriptions).
    if crate::tape::gen() >= 2 && t.flag(15, 100, "str_len_boundary") {
        let b = t.pick(&[64usize, 128, 63, 65, 127, 129], "str_len_at");
        if b <= max_len {
            n = b;
        }
    }
    let class = t.choose(8, "str_class");
    (0..n)
        .map(|i| match class {
            0 if i == n - 1 => 0u8,                              // C-style terminator
            1 => t.pick(&[0xb5u8, 0xe9, 0x80, 0xff], "str_hi"), // non-ASCII
            2 if i % 5 == 4 => 0,
            _ => b'A' + ((i as u8).wrapping_mul(7).wrapping_add(class as u8 * 3)) % 26,
        })
        .collect()
}

/// A realistic process-data device description.
#[derive(Clone, Debug)]
pub struct PdLayout {
    /// (sm index, is_output, physical start, pdos)
    pub sms: Vec<(u8, bool, u16, Vec<PdoDesc>)>,
}

/// Build an image for a device with optional mailbox and process data sync managers.
#[allow(clippy::too_many_arguments)]
pub fn build_image(
    t: &mut Tape,
    opts: &GenOpts,
    vendor: u32,
    product: u32,
    revision: u32,
    serial: u32,
    alias: u16,
    name: Option<Vec<u8>>,
    mailbox: Option<(MailboxDesc, u8)>, // (mailbox words, CoE details)
    pd: &PdLayout,
    fmmu_usage: Vec<u8>,
    fmmu_ex: Option<Vec<[u8; 3]>>,
    size_kbit: usize,
) -> Image {
    // String table: the device name plus filler strings.
    let mut strings: Vec<Vec<u8>> = Vec::new();
    let n_fill = t.choose(opts.max_strings + 1, "n_strings");
    for _ in 0..n_fill {
        strings.push(gen_string(t, opts.max_string_len));
    }
    let mut order_idx = 0u8;
    let mut name_idx = 0u8;
    if let Some(n) = name {
        let pos = t.choose(strings.len() + 1, "name_pos");
        strings.insert(pos, n);
        order_idx = pos as u8 + 1;
        // A second, longer description string.
        let d = gen_string(t, opts.max_string_len);
        strings.push(d);
        name_idx = strings.len() as u8;
    }
    let usage_unspecified = crate::tape::gen() >= 2 && !pd.sms.is_empty() && t.flag(15, 100, "sm_usage_unspecified");
    let mut sms: Vec<SmDesc> = Vec::new();
    if let Some((m, _)) = &mailbox {
        sms.push(SmDesc { start: m.recv_offset, length: m.recv_size, control: 0x26, enable: 1, usage: 1 });
        sms.push(SmDesc { start: m.send_offset, length: m.send_size, control: 0x22, enable: 1, usage: 2 });
    }
    let mut tx = Vec::new();
    let mut rx = Vec::new();
    for (idx, is_out, start, pdos) in &pd.sms {
        while sms.len() < *idx as usize {
            sms.push(SmDesc { start: 0, length: 0, control: 0, enable: 0, usage: 0 });
        }
        let bits: u32 = pdos.iter().map(|p| p.bit_len()).sum();
        sms.push(SmDesc {
            start: *start,
            length: ((bits + 7) / 8) as u16,
            control: if *is_out { 0x24 } else { 0x20 },
            enable: 1,
            // Older devices leave the usage byte at 0; the control byte then says what the sync
            // manager is for.
            usage: if usage_unspecified { 0 } else if *is_out { 3 } else { 4 },
        });
        for p in pdos {
            if *is_out {
                rx.push(p.clone());
            } else {
                tx.push(p.clone());
            }
        }
    }
    let header = Header {
        pdi_control: t.pick(&[0x0005u16, 0x0080, 0x0c08, 0], "pdi_control"),
        pdi_config: t.bits32("pdi_config") as u16,
        sync_impulse: t.pick(&[0u16, 0x000a, 0x03e8], "sync_impulse"),
        pdi_config2: 0,
        alias,
        reserved5_6: [0, 0],
        checksum: 0,
        vendor,
        product,
        revision,
        serial,
        reserved_10_13: [0; 4],
        boot_mbx: [0; 4],
        mailbox: mailbox.as_ref().map(|m| m.0.clone()).unwrap_or(MailboxDesc { recv_offset: 0, recv_size: 0, send_offset: 0, send_size: 0, protocols: 0 }),
        size_word: (size_kbit - 1) as u16,
        version: 1,
    };
    let mut cats: Vec<Category> = Vec::new();
    if !strings.is_empty() || t.flag(50, 100, "empty_strings_cat") {
        cats.push(Category::Strings(strings));
    }
    cats.push(Category::General(GeneralDesc {
        group_idx: 0,
        image_idx: 0,
        order_idx,
        name_idx,
        coe_details: mailbox.as_ref().map_or(0, |m| m.1),
        foe: t.choose(2, "foe") as u8,
        eoe: t.choose(2, "eoe") as u8,
        flags: t.choose(0x20, "gen_flags") as u8,
        ebus_current: t.choose(2000, "ebus") as i16 - 100,
        ports: 0,
        phys_mem: 0,
    }));
    if !fmmu_usage.is_empty() {
        cats.push(Category::Fmmu(fmmu_usage));
    }
    if !sms.is_empty() {
        cats.push(Category::SyncManagers(sms));
    }
    if let Some(x) = fmmu_ex {
        cats.push(Category::FmmuEx(x));
    }
    if !tx.is_empty() {
        cats.push(Category::TxPdo(tx));
    }
    if !rx.is_empty() {
        cats.push(Category::RxPdo(rx));
    }
    if opts.allow_unknown_categories {
        let n = t.choose(3, "n_unknown");
        for _ in 0..n {
            let ty = t.pick(&[60u16, 20, 43, 0x1000, 0x7ffe, 2, 9], "unknown_type");
            let words = t.choose(12, "unknown_words");
            let data: Vec<u8> = (0..words * 2).map(|i| (i as u8).wrapping_mul(37).wrapping_add(ty as u8)).collect();
            let pos = t.choose(cats.len() + 1, "unknown_pos");
            cats.insert(pos, Category::Other(ty, data));
        }
    }
    if opts.shuffle_categories {
        for i in (1..cats.len()).rev() {
            let j = t.choose(i + 1, "cat_shuffle");
            cats.swap(i, j);
        }
    }
    Image {
        header,
        categories: cats,
        end_marker: true,
    }
}
