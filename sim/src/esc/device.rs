//! One simulated EtherCAT SubDevice controller (ESC) with its application: register file with side
//! effects, SII/EEPROM interface, AL state machine, sync managers + mailbox, FMMUs, DC registers.
//! Semantics follow ETG.1000.4/.6 and the ESC datasheet; nothing here uses an ethercrab type.

use super::coe::CoeServer;
use std::collections::BTreeMap;

pub const REG_TYPE: usize = 0x0000;
pub const REG_FMMU_COUNT: usize = 0x0004;
pub const REG_SM_COUNT: usize = 0x0005;
pub const REG_SUPPORT: usize = 0x0008;
pub const REG_STATION_ADDR: usize = 0x0010;
pub const REG_ALIAS: usize = 0x0012;
pub const REG_DL_STATUS: usize = 0x0110;
pub const REG_AL_CONTROL: usize = 0x0120;
pub const REG_AL_STATUS: usize = 0x0130;
pub const REG_AL_CODE: usize = 0x0134;
pub const REG_SII_CONFIG: usize = 0x0500;
pub const REG_SII_CONTROL: usize = 0x0502;
pub const REG_SII_ADDR: usize = 0x0504;
pub const REG_SII_DATA: usize = 0x0508;
pub const REG_FMMU: usize = 0x0600;
pub const REG_SM: usize = 0x0800;
pub const REG_DC_PORT0: usize = 0x0900;
pub const REG_DC_SYSTIME: usize = 0x0910;
pub const REG_DC_RECV: usize = 0x0918;
pub const REG_DC_OFFSET: usize = 0x0920;
pub const REG_DC_DELAY: usize = 0x0928;

pub const ST_INIT: u8 = 1;
pub const ST_PREOP: u8 = 2;
pub const ST_BOOT: u8 = 3;
pub const ST_SAFEOP: u8 = 4;
pub const ST_OP: u8 = 8;

/// How the device's application reacts to a state request.
#[derive(Clone, Debug, PartialEq, Eq)]
pub enum AlBehaviour {
    /// Reach the requested state after this many status polls.
    Accept { polls: u32 },
    /// Stay in the old state, set the error bit and this status code.
    Refuse { code: u16 },
    /// Stay in the old state without any indication.
    Stall,
    /// Reach the state after `polls` polls, then after `after` further status reads fall back to `to` with
    /// the error bit and `code`.
    FallBack { polls: u32, after: u32, to: u8, code: u16 },
}

#[derive(Clone, Debug, Default)]
pub struct Faults {
    /// Stop processing datagrams from the n-th datagram this device would service (0-based).
    pub dropout_from: Option<u64>,
    /// Do not service exactly this datagram number (then continue).
    pub skip_one: Option<u64>,
    /// SII stays busy for this many status polls after each command.
    pub sii_busy_polls: u32,
    /// SII never leaves busy.
    pub sii_busy_forever: bool,
    /// Number of write commands that end with the command-error bit set before one succeeds.
    pub sii_cmd_errors: u32,
    /// The mailbox out (read) SM stays empty for this many status polls after a request was written.
    pub mbx_lag_polls: u32,
    /// Do not service configured-address reads (FPRD) of this register (e.g. 0x0130: the per-cycle
    /// state check goes unanswered while everything else works).
    pub deaf_to_fprd: Option<u16>,
}

#[derive(Clone, Debug, Default)]
pub struct Stats {
    pub datagrams_serviced: u64,
    pub al_control_writes: Vec<(u64, u16)>,
    pub al_status_reads: u64,
    /// The last AL status words this device reported, with the time of the read.
    pub al_status_log: Vec<(u64, u16)>,
    pub sii_reads: u64,
    pub sii_writes: u64,
    pub sii_write_cmds: u64,
    pub sii_addr_hist: BTreeMap<u32, u32>,
    pub mailbox_requests: u64,
    pub reg_writes: Vec<(u16, Vec<u8>)>,
    pub lrw_bytes_written: u64,
    pub lrw_bytes_read: u64,
}

#[derive(Clone)]
pub struct Device {
    pub mem: Vec<u8>,
    pub eeprom: Vec<u8>,
    pub read8: bool,
    pub fmmu_count: u8,
    pub sm_count: u8,
    /// AL state and error flag as reported in 0x0130.
    pub al_state: u8,
    pub al_error: bool,
    pub al_code: u16,
    pending: Option<(u8, u32)>,
    fallback: Option<(u32, u8, u16)>,
    /// Behaviour per requested state (default Accept{0}).
    pub al_behaviour: BTreeMap<u8, AlBehaviour>,
    /// Refuse PRE-OP/SAFE-OP when the sync managers are not configured as the device expects.
    pub strict_config: bool,
    /// Expected process data SM configuration: sm index -> (start, length, is_output)
    pub expected_pd_sms: BTreeMap<u8, (u16, u16, bool)>,
    /// Expected mailbox SMs: (write sm start, len, read sm start, len)
    pub expected_mailbox: Option<(u16, u16, u16, u16)>,
    sii_busy_left: u32,
    sii_cmd_errors_left: u32,
    /// Command errors that start only after this many further successful word writes.
    sii_cmd_errors_deferred: Option<(u32, u32)>,
    sii_status_hi: u8,
    /// Mailbox state.
    pub mbx_in_full: bool,
    pub mbx_out_full: bool,
    mbx_out_lag: u32,
    mbx_pending_reply: Option<Vec<u8>>,
    pub coe: Option<CoeServer>,
    pub faults: Faults,
    pub stats: Stats,
    /// DC: local clock = global time + this offset (ns). 32 bit devices wrap their latches anyway.
    pub dc_supported: bool,
    pub dc_64bit: bool,
    pub clock_offset: i128,
    /// When set, reads of the system time register return this value (C18 drives the whole u64 range).
    pub systime_override: Option<u64>,
    /// Open ports (by port number 0..=3).
    pub port_open: [bool; 4],
    /// Whether each SM's last byte was written/read (completion of the buffer exchange) in this frame.
    pub sm_complete_writes: [u64; 16],
    pub sm_complete_reads: [u64; 16],
    /// Inputs the application presents (copied into input SM areas before each frame).
    pub app_inputs: BTreeMap<u8, Vec<u8>>,
    /// Datagram counter for fault positions.
    pub serviced_counter: u64,
    /// (command, register) of the first datagram an injected fault made this device ignore.
    pub first_refused: Option<(u8, u16)>,
    /// Wire-level tampering: replace the working counter increment of every serviced datagram.
    pub wkc_tamper: Option<i32>,
}

fn rd16(m: &[u8], a: usize) -> u16 {
    u16::from_le_bytes([m[a], m[a + 1]])
}

fn wr16(m: &mut [u8], a: usize, v: u16) {
    m[a..a + 2].copy_from_slice(&v.to_le_bytes());
}

#[derive(Clone, Copy, Debug, PartialEq, Eq)]
pub struct SmReg {
    pub start: u16,
    pub len: u16,
    pub control: u8,
    pub activate: u8,
}

impl SmReg {
    pub fn enabled(&self) -> bool {
        self.activate & 1 != 0
    }
    pub fn is_mailbox(&self) -> bool {
        self.control & 0x03 == 0x02
    }
    /// Direction bit: true = written by the master.
    pub fn master_writes(&self) -> bool {
        (self.control >> 2) & 0x03 == 0x01
    }
}

#[derive(Clone, Copy, Debug, PartialEq, Eq)]
pub struct FmmuReg {
    pub logical: u32,
    pub len: u16,
    pub start_bit: u8,
    pub end_bit: u8,
    pub phys: u16,
    pub phys_bit: u8,
    pub read: bool,
    pub write: bool,
    pub enabled: bool,
}

impl Device {
    pub fn new(eeprom: Vec<u8>, read8: bool, support_flags: u16, fmmu_count: u8, sm_count: u8) -> Self {
        let mut mem = vec![0u8; 0x10000];
        mem[REG_TYPE] = 0x11;
        mem[REG_FMMU_COUNT] = fmmu_count;
        mem[REG_SM_COUNT] = sm_count;
        wr16(&mut mem, REG_SUPPORT, support_flags);
        // Station alias register is loaded from EEPROM word 4 at power-on.
        if eeprom.len() >= 10 {
            mem[REG_ALIAS] = eeprom[8];
            mem[REG_ALIAS + 1] = eeprom[9];
        }
        let dc_supported = support_flags & 0x0004 != 0;
        let dc_64bit = support_flags & 0x0008 != 0;
        Device {
            mem,
            eeprom,
            read8,
            fmmu_count,
            sm_count,
            al_state: ST_INIT,
            al_error: false,
            al_code: 0,
            pending: None,
            fallback: None,
            al_behaviour: BTreeMap::new(),
            strict_config: false,
            expected_pd_sms: BTreeMap::new(),
            expected_mailbox: None,
            sii_busy_left: 0,
            sii_cmd_errors_left: 0,
            sii_cmd_errors_deferred: None,
            sii_status_hi: 0,
            mbx_in_full: false,
            mbx_out_full: false,
            mbx_out_lag: 0,
            mbx_pending_reply: None,
            coe: None,
            faults: Faults::default(),
            stats: Stats::default(),
            dc_supported,
            dc_64bit,
            clock_offset: 0,
            systime_override: None,
            port_open: [true, false, false, false],
            sm_complete_writes: [0; 16],
            sm_complete_reads: [0; 16],
            app_inputs: BTreeMap::new(),
            serviced_counter: 0,
            first_refused: None,
            wkc_tamper: None,
        }
    }

    pub fn station_address(&self) -> u16 {
        rd16(&self.mem, REG_STATION_ADDR)
    }

    pub fn sm(&self, i: usize) -> SmReg {
        let a = REG_SM + 8 * i;
        SmReg {
            start: rd16(&self.mem, a),
            len: rd16(&self.mem, a + 2),
            control: self.mem[a + 4],
            activate: self.mem[a + 6],
        }
    }

    pub fn fmmu(&self, i: usize) -> FmmuReg {
        let a = REG_FMMU + 16 * i;
        FmmuReg {
            logical: u32::from_le_bytes([self.mem[a], self.mem[a + 1], self.mem[a + 2], self.mem[a + 3]]),
            len: rd16(&self.mem, a + 4),
            start_bit: self.mem[a + 6] & 7,
            end_bit: self.mem[a + 7] & 7,
            phys: rd16(&self.mem, a + 8),
            phys_bit: self.mem[a + 10] & 7,
            read: self.mem[a + 11] & 1 != 0,
            write: self.mem[a + 11] & 2 != 0,
            enabled: self.mem[a + 12] & 1 != 0,
        }
    }

    /// Local clock reading (ns) at global time `t`.
    pub fn local_time(&self, t: u64) -> u64 {
        (t as i128 + self.clock_offset) as u64
    }

    /// Should this device service the next datagram addressed to it? Advances the fault position.
    pub fn will_service(&mut self, cmd: u8, ado: u16) -> bool {
        let n = self.serviced_counter;
        self.serviced_counter += 1;
        if let Some(from) = self.faults.dropout_from {
            if n >= from {
                if self.first_refused.is_none() {
                    self.first_refused = Some((cmd, ado));
                }
                return false;
            }
        }
        if self.faults.skip_one == Some(n) {
            if self.first_refused.is_none() {
                self.first_refused = Some((cmd, ado));
            }
            return false;
        }
        if cmd == crate::wire::CMD_FPRD && self.faults.deaf_to_fprd == Some(ado) {
            return false;
        }
        self.stats.datagrams_serviced += 1;
        true
    }

    fn al_status_word(&self) -> u16 {
        (self.al_state as u16 & 0x0f) | ((self.al_error as u16) << 4)
    }

    fn refresh_dynamic(&mut self, now: u64) {
        let w = self.al_status_word();
        wr16(&mut self.mem, REG_AL_STATUS, w);
        wr16(&mut self.mem, REG_AL_CODE, self.al_code);
        // DL status: link bits 4..7 = ports 0..3; communication/loop bits 8..15.
        let mut dl: u16 = 0x0001;
        for p in 0..4 {
            if self.port_open[p] {
                dl |= 1 << (4 + p);
                dl |= 1 << (9 + 2 * p); // communication established
            } else {
                dl |= 1 << (8 + 2 * p); // loop closed
            }
        }
        wr16(&mut self.mem, REG_DL_STATUS, dl);
        // SII status.
        let busy = self.sii_busy_left > 0 || self.faults.sii_busy_forever;
        let lo = (self.mem[REG_SII_CONTROL] & 0x01) | if self.read8 { 0x40 } else { 0 };
        let hi = (self.sii_status_hi & 0x78) | if busy { 0x80 } else { 0 };
        self.mem[REG_SII_CONTROL] = lo;
        self.mem[REG_SII_CONTROL + 1] = hi;
        // SM status bytes.
        for i in 0..16 {
            let sm = self.sm(i);
            let mut st = 0u8;
            if sm.enabled() && sm.is_mailbox() {
                let full = if sm.master_writes() { self.mbx_in_full } else { self.mbx_out_full && self.mbx_out_lag == 0 };
                if full {
                    st |= 0x08;
                }
            }
            self.mem[REG_SM + 8 * i + 5] = st;
        }
        // DC system time.
        if self.dc_supported {
            let st = match self.systime_override {
                Some(v) => v,
                None => {
                    let off = i64::from_le_bytes(self.mem[REG_DC_OFFSET..REG_DC_OFFSET + 8].try_into().unwrap());
                    (self.local_time(now) as i128 + off as i128) as u64
                }
            };
            self.mem[REG_DC_SYSTIME..REG_DC_SYSTIME + 8].copy_from_slice(&st.to_le_bytes());
        }
    }

    /// Read `len` bytes at `addr` into `out` (ORed when `or` is set, as for BRD). Returns success.
    pub fn read(&mut self, addr: u16, out: &mut [u8], or: bool, now: u64) -> bool {
        let a = addr as usize;
        let len = out.len();
        if a + len > 0x10000 {
            return false;
        }
        self.refresh_dynamic(now);
        // Side effects of specific reads.
        if a <= REG_AL_STATUS && a + len > REG_AL_STATUS {
            self.stats.al_status_reads += 1;
            self.tick_al();
            self.refresh_dynamic(now);
            let w = self.al_status_word();
            if self.stats.al_status_log.len() > 4096 {
                self.stats.al_status_log.drain(0..2048);
            }
            self.stats.al_status_log.push((now, w));
        }
        if a <= REG_SII_CONTROL + 1 && a + len > REG_SII_CONTROL {
            if self.sii_busy_left > 0 {
                self.sii_busy_left -= 1;
            }
        }
        // Reading a mailbox SM status ages the out-mailbox lag.
        for i in 0..16 {
            let st = REG_SM + 8 * i + 5;
            if a <= st && a + len > st {
                let sm = self.sm(i);
                if sm.enabled() && sm.is_mailbox() && !sm.master_writes() && self.mbx_out_lag > 0 {
                    self.mbx_out_lag -= 1;
                }
            }
        }
        // Mailbox out: reading the last byte empties it.
        let mut emptied = false;
        for i in 0..16 {
            let sm = self.sm(i);
            if sm.enabled() && sm.is_mailbox() && !sm.master_writes() && sm.len > 0 {
                let (s, e) = (sm.start as usize, sm.start as usize + sm.len as usize);
                if a < e && a + len > s {
                    if !(self.mbx_out_full && self.mbx_out_lag == 0) {
                        // Reading an empty out-mailbox fails (no working counter increment).
                        return false;
                    }
                    if a + len >= e {
                        emptied = true;
                        self.sm_complete_reads[i] += 1;
                    }
                }
            }
        }
        // Process data input SMs: present the application's inputs.
        for i in 0..16 {
            let sm = self.sm(i);
            if sm.enabled() && !sm.is_mailbox() && !sm.master_writes() && sm.len > 0 {
                let (s, e) = (sm.start as usize, sm.start as usize + sm.len as usize);
                if a < e && a + len > s && a + len >= e {
                    self.sm_complete_reads[i] += 1;
                }
            }
        }
        for (i, o) in out.iter_mut().enumerate() {
            if or {
                *o |= self.mem[a + i];
            } else {
                *o = self.mem[a + i];
            }
        }
        if emptied {
            self.mbx_out_full = false;
            // A queued reply (e.g. the next fragment) becomes visible now.
            if let Some(next) = self.coe.as_mut().and_then(|c| c.next_queued()) {
                self.put_reply(next);
            }
        }
        true
    }

    /// Write `data` at `addr`. Returns success.
    pub fn write(&mut self, addr: u16, data: &[u8], now: u64) -> bool {
        let a = addr as usize;
        let len = data.len();
        if a + len > 0x10000 {
            return false;
        }
        // Writes into an enabled mailbox-in SM: only accepted while empty; last byte completes it.
        let mut mbx_complete: Option<usize> = None;
        for i in 0..16 {
            let sm = self.sm(i);
            if sm.enabled() && sm.len > 0 {
                let (s, e) = (sm.start as usize, sm.start as usize + sm.len as usize);
                if a < e && a + len > s {
                    if sm.is_mailbox() {
                        if !sm.master_writes() {
                            return false; // out mailbox is read-only for the master
                        }
                        if self.mbx_in_full {
                            return false;
                        }
                        if a != s {
                            return false; // buffer must be written from its first byte
                        }
                        if a + len >= e {
                            mbx_complete = Some(i);
                        }
                    } else if !sm.master_writes() {
                        return false; // input buffer: master may not write
                    } else if a + len >= e {
                        self.sm_complete_writes[i] += 1;
                    }
                }
            }
        }
        if a < 0x1000 {
            self.stats.reg_writes.push((addr, data.to_vec()));
        }
        // Registers the master cannot change.
        let protected = |x: usize| (REG_TYPE..REG_STATION_ADDR).contains(&x) || (REG_AL_STATUS..REG_AL_STATUS + 2).contains(&x) || (REG_AL_CODE..REG_AL_CODE + 2).contains(&x) || (REG_DL_STATUS..REG_DL_STATUS + 2).contains(&x);
        let sii_ctrl_written = a <= REG_SII_CONTROL + 1 && a + len > REG_SII_CONTROL;
        let old_sii = [self.mem[REG_SII_CONTROL], self.mem[REG_SII_CONTROL + 1]];
        for (i, b) in data.iter().enumerate() {
            let x = a + i;
            if protected(x) {
                continue;
            }
            // Unimplemented FMMU / SM / DC registers do not exist.
            if (REG_FMMU..REG_FMMU + 0x100).contains(&x) && (x - REG_FMMU) / 16 >= self.fmmu_count as usize {
                continue;
            }
            if (REG_SM..REG_SM + 0x80).contains(&x) && (x - REG_SM) / 8 >= self.sm_count as usize {
                continue;
            }
            if (0x0900..0x0a00).contains(&x) && !self.dc_supported {
                continue;
            }
            // Port receive times and the processing unit receive time are latches: a write triggers
            // latching, the written data is not stored.
            if (REG_DC_PORT0..REG_DC_PORT0 + 16).contains(&x) || (REG_DC_RECV..REG_DC_RECV + 8).contains(&x) {
                continue;
            }
            self.mem[x] = *b;
        }
        if a <= REG_AL_CONTROL + 1 && a + len > REG_AL_CONTROL {
            let v = rd16(&self.mem, REG_AL_CONTROL);
            self.stats.al_control_writes.push((now, v));
            self.al_request(v);
        }
        if sii_ctrl_written {
            let lo = self.mem[REG_SII_CONTROL];
            let hi = self.mem[REG_SII_CONTROL + 1];
            self.mem[REG_SII_CONTROL] = old_sii[0];
            self.mem[REG_SII_CONTROL + 1] = old_sii[1];
            self.sii_command(lo, hi);
        }
        if let Some(i) = mbx_complete {
            self.sm_complete_writes[i] += 1;
            self.mbx_in_full = true;
            self.handle_mailbox_request(i);
        }
        true
    }

    fn sii_command(&mut self, lo: u8, hi: u8) {
        // Keep the write-enable bit as written; error bits are cleared by writing zeros to them.
        self.mem[REG_SII_CONTROL] = lo & 0x01;
        self.sii_status_hi &= hi | 0x07;
        if self.sii_busy_left > 0 || self.faults.sii_busy_forever {
            return; // commands are ignored while busy
        }
        let addr = u32::from_le_bytes([self.mem[REG_SII_ADDR], self.mem[REG_SII_ADDR + 1], self.mem[REG_SII_ADDR + 2], self.mem[REG_SII_ADDR + 3]]);
        let read = hi & 0x01 != 0;
        let write = hi & 0x02 != 0;
        let reload = hi & 0x04 != 0;
        if read || write || reload {
            // A new command clears the command error/ack bits of the previous one.
            self.sii_status_hi &= !0x60;
        }
        if read {
            self.stats.sii_reads += 1;
            *self.stats.sii_addr_hist.entry(addr).or_insert(0) += 1;
            let n = if self.read8 { 8 } else { 4 };
            let base = addr as usize * 2;
            for i in 0..8 {
                self.mem[REG_SII_DATA + i] = if i < n { self.eeprom.get(base + i).copied().unwrap_or(0xff) } else { 0 };
            }
            self.sii_busy_left = self.faults.sii_busy_polls;
        } else if write {
            self.stats.sii_write_cmds += 1;
            if lo & 0x01 == 0 {
                self.sii_status_hi |= 0x40; // write without write enable
            } else if self.sii_cmd_errors_left > 0 {
                self.sii_cmd_errors_left -= 1;
                self.sii_status_hi |= 0x20;
            } else {
                let base = addr as usize * 2;
                if base + 1 < self.eeprom.len() {
                    self.eeprom[base] = self.mem[REG_SII_DATA];
                    self.eeprom[base + 1] = self.mem[REG_SII_DATA + 1];
                    self.stats.sii_writes += 1;
                    if let Some((after, errs)) = self.sii_cmd_errors_deferred {
                        if after <= 1 {
                            self.sii_cmd_errors_left = errs;
                            self.sii_cmd_errors_deferred = None;
                        } else {
                            self.sii_cmd_errors_deferred = Some((after - 1, errs));
                        }
                    }
                } else {
                    self.sii_status_hi |= 0x20;
                }
                // The next word write starts with a fresh error budget only when configured so.
            }
            self.sii_busy_left = self.faults.sii_busy_polls;
            // Write enable is self-clearing.
            self.mem[REG_SII_CONTROL] &= !0x01;
        }
    }

    /// Put the device into an AL state directly (application-side change), cancelling scripted behaviour.
    pub fn force_state(&mut self, state: u8, error: bool, code: u16) {
        self.al_state = state;
        self.al_error = error;
        self.al_code = code;
        self.pending = None;
        self.fallback = None;
    }

    /// Arm `n` command errors for the following write commands.
    pub fn arm_sii_cmd_errors(&mut self, n: u32) {
        self.sii_cmd_errors_left = n;
        self.sii_cmd_errors_deferred = None;
    }

    /// Let the next `successful` word writes go through, then answer `n` write commands with a
    /// command error.
    pub fn arm_sii_cmd_errors_after(&mut self, successful: u32, n: u32) {
        self.sii_cmd_errors_left = 0;
        self.sii_cmd_errors_deferred = Some((successful, n));
    }

    fn config_ok_for(&self, target: u8) -> Result<(), u16> {
        if !self.strict_config {
            return Ok(());
        }
        if target == ST_PREOP || target == ST_SAFEOP || target == ST_OP {
            if let Some((ws, wl, rs, rl)) = self.expected_mailbox {
                let ok = (0..16).any(|i| {
                    let s = self.sm(i);
                    s.enabled() && s.is_mailbox() && s.master_writes() && s.start == ws && s.len == wl
                }) && (0..16).any(|i| {
                    let s = self.sm(i);
                    s.enabled() && s.is_mailbox() && !s.master_writes() && s.start == rs && s.len == rl
                });
                if !ok {
                    return Err(0x0016); // invalid mailbox configuration
                }
            }
        }
        if target == ST_SAFEOP || target == ST_OP {
            for (idx, (start, len, out)) in &self.expected_pd_sms {
                let s = self.sm(*idx as usize);
                if *len == 0 {
                    if s.enabled() && s.len != 0 {
                        return Err(if *out { 0x001d } else { 0x001e });
                    }
                    continue;
                }
                if !s.enabled() || s.start != *start || s.len != *len || s.is_mailbox() || s.master_writes() != *out {
                    return Err(if *out { 0x001d } else { 0x001e });
                }
            }
        }
        Ok(())
    }

    fn al_request(&mut self, v: u16) {
        let target = (v & 0x0f) as u8;
        let ack = v & 0x10 != 0;
        if ack {
            self.al_error = false;
            self.al_code = 0;
        }
        if target == self.al_state && self.pending.is_none() {
            return;
        }
        if !matches!(target, ST_INIT | ST_PREOP | ST_BOOT | ST_SAFEOP | ST_OP) {
            self.al_error = true;
            self.al_code = 0x0012; // unknown requested state
            return;
        }
        self.fallback = None;
        let beh = self.al_behaviour.get(&target).cloned().unwrap_or(AlBehaviour::Accept { polls: 0 });
        // Going down is always possible.
        let going_down = rank(target) < rank(self.al_state);
        if !going_down {
            if let Err(code) = self.config_ok_for(target) {
                self.al_error = true;
                self.al_code = code;
                self.pending = None;
                return;
            }
        }
        match beh {
            AlBehaviour::Accept { polls } => {
                if polls == 0 {
                    self.al_state = target;
                    self.pending = None;
                } else {
                    self.pending = Some((target, polls));
                }
            }
            AlBehaviour::Refuse { code } => {
                self.al_error = true;
                self.al_code = code;
                self.pending = None;
            }
            AlBehaviour::Stall => {
                self.pending = None;
            }
            AlBehaviour::FallBack { polls, after, to, code } => {
                if polls == 0 {
                    self.al_state = target;
                    self.pending = None;
                } else {
                    self.pending = Some((target, polls));
                }
                self.fallback = Some((after, to, code));
            }
        }
    }

    fn tick_al(&mut self) {
        if let Some((target, polls)) = self.pending {
            if polls <= 1 {
                self.al_state = target;
                self.pending = None;
            } else {
                self.pending = Some((target, polls - 1));
            }
            return;
        }
        if let Some((after, to, code)) = self.fallback {
            if after == 0 {
                self.al_state = to;
                self.al_error = true;
                self.al_code = code;
                self.fallback = None;
            } else {
                self.fallback = Some((after - 1, to, code));
            }
        }
    }

    fn put_reply(&mut self, reply: Vec<u8>) {
        // Find the mailbox-out SM.
        for i in 0..16 {
            let sm = self.sm(i);
            if sm.enabled() && sm.is_mailbox() && !sm.master_writes() && sm.len > 0 {
                let s = sm.start as usize;
                let n = (sm.len as usize).min(reply.len());
                // The part of the mailbox beyond the reply keeps whatever it held (stale data).
                self.mem[s..s + n].copy_from_slice(&reply[..n]);
                self.mbx_out_full = true;
                self.mbx_out_lag = self.faults.mbx_lag_polls;
                return;
            }
        }
    }

    /// Place raw bytes into the out mailbox as if the application had queued them (stale/emergency).
    pub fn inject_out_mailbox(&mut self, bytes: Vec<u8>) {
        self.put_reply(bytes);
    }

    fn handle_mailbox_request(&mut self, sm_index: usize) {
        let sm = self.sm(sm_index);
        let req = self.mem[sm.start as usize..sm.start as usize + sm.len as usize].to_vec();
        self.stats.mailbox_requests += 1;
        // The application consumes the request at once.
        self.mbx_in_full = false;
        let out_len = (0..16)
            .map(|i| self.sm(i))
            .find(|s| s.enabled() && s.is_mailbox() && !s.master_writes())
            .map_or(0, |s| s.len as usize);
        if let Some(coe) = self.coe.as_mut() {
            if let Some(reply) = coe.handle(&req, out_len) {
                if self.mbx_out_full {
                    // Out mailbox still holds something (stale): the new reply waits.
                    coe.queue_front(reply);
                } else {
                    self.put_reply(reply);
                }
            }
        }
    }

    /// Logical (FMMU) access for LRD/LWR/LRW. `data` covers logical addresses
    /// `[logical, logical + data.len())`. Returns (read_hit, write_hit).
    pub fn logical_access(&mut self, logical: u32, request: &[u8], response: &mut [u8], do_read: bool, do_write: bool, now: u64) -> (bool, bool) {
        let mut read_hit = false;
        let mut write_hit = false;
        let lo = logical as u64;
        let hi = lo + request.len() as u64;
        for i in 0..self.fmmu_count as usize {
            let f = self.fmmu(i);
            if !f.enabled || f.len == 0 {
                continue;
            }
            let total_bits: i64 = f.len as i64 * 8 - f.start_bit as i64 - (7 - f.end_bit as i64);
            if total_bits <= 0 {
                continue;
            }
            let fl_lo = f.logical as u64;
            let fl_hi = fl_lo + f.len as u64;
            if fl_hi <= lo || hi <= fl_lo {
                continue;
            }
            let byte_aligned = f.start_bit == 0 && f.end_bit == 7 && f.phys_bit == 0;
            if do_read && f.read {
                // Physical area must be readable: covered by an enabled input SM or by none.
                if self.phys_accessible(f.phys, f.len, false) {
                    if byte_aligned {
                        for k in 0..f.len as u64 {
                            let la = fl_lo + k;
                            if la >= lo && la < hi {
                                response[(la - lo) as usize] = self.mem[f.phys as usize + k as usize];
                                self.stats.lrw_bytes_read += 1;
                            }
                        }
                    } else {
                        for b in 0..total_bits as u64 {
                            let lbit = fl_lo * 8 + f.start_bit as u64 + b;
                            let pbit = f.phys as u64 * 8 + f.phys_bit as u64 + b;
                            let la = lbit / 8;
                            if la >= lo && la < hi {
                                let v = (self.mem[(pbit / 8) as usize] >> (pbit % 8)) & 1;
                                let r = &mut response[(la - lo) as usize];
                                *r = (*r & !(1 << (lbit % 8))) | (v << (lbit % 8));
                            }
                        }
                    }
                    read_hit = true;
                    self.note_pd_access(f.phys, f.len, false, lo, hi, fl_lo);
                }
            }
            if do_write && f.write {
                if self.phys_accessible(f.phys, f.len, true) {
                    if byte_aligned {
                        for k in 0..f.len as u64 {
                            let la = fl_lo + k;
                            if la >= lo && la < hi {
                                self.mem[f.phys as usize + k as usize] = request[(la - lo) as usize];
                                self.stats.lrw_bytes_written += 1;
                            }
                        }
                    } else {
                        for b in 0..total_bits as u64 {
                            let lbit = fl_lo * 8 + f.start_bit as u64 + b;
                            let pbit = f.phys as u64 * 8 + f.phys_bit as u64 + b;
                            let la = lbit / 8;
                            if la >= lo && la < hi {
                                let v = (request[(la - lo) as usize] >> (lbit % 8)) & 1;
                                let m = &mut self.mem[(pbit / 8) as usize];
                                *m = (*m & !(1 << (pbit % 8))) | (v << (pbit % 8));
                            }
                        }
                    }
                    write_hit = true;
                    self.note_pd_access(f.phys, f.len, true, lo, hi, fl_lo);
                }
            }
        }
        let _ = now;
        (read_hit, write_hit)
    }

    fn phys_accessible(&self, phys: u16, len: u16, write: bool) -> bool {
        let (s, e) = (phys as usize, phys as usize + len as usize);
        for i in 0..16 {
            let sm = self.sm(i);
            if sm.enabled() && sm.len > 0 {
                let (ss, se) = (sm.start as usize, sm.start as usize + sm.len as usize);
                if s < se && e > ss {
                    if sm.is_mailbox() || sm.master_writes() != write {
                        return false;
                    }
                }
            }
        }
        true
    }

    fn note_pd_access(&mut self, phys: u16, len: u16, write: bool, lo: u64, hi: u64, fl_lo: u64) {
        // Which part of the FMMU's physical range did this datagram touch?
        let touched_lo = phys as u64 + lo.saturating_sub(fl_lo);
        let touched_hi = phys as u64 + (hi.min(fl_lo + len as u64) - fl_lo);
        for i in 0..16 {
            let sm = self.sm(i);
            if sm.enabled() && !sm.is_mailbox() && sm.len > 0 && sm.master_writes() == write {
                let last = sm.start as u64 + sm.len as u64 - 1;
                if touched_lo <= last && last < touched_hi {
                    if write {
                        self.sm_complete_writes[i] += 1;
                    } else {
                        self.sm_complete_reads[i] += 1;
                    }
                }
            }
        }
    }
}

fn rank(state: u8) -> u8 {
    match state {
        ST_INIT => 0,
        ST_BOOT => 1,
        ST_PREOP => 1,
        ST_SAFEOP => 2,
        ST_OP => 3,
        _ => 0,
    }
}
