//! The PDU-loop scenario for engine F: 1..3 application fibres issue requests through the real API,
//! a TX fibre hands frames to a scripted wire, an RX fibre feeds responses back. One configurable
//! scenario serves C01, C02, C03 (history part) and C06; they differ in enabled faults, scheduler
//! granularity and oracles.

use crate::clock;
use crate::enginef::{self, with, Ctx, Flag, PartyKind, RunEnd, SlotMap, Strategy, TransMode};
use crate::fiber::Fibre;
use crate::rng::mix;
use crate::storage;
use crate::tape::Tape;
use crate::wire;
use ethercrab::error::{Error, PduError};
use ethercrab::verif;
use ethercrab::{Command, MainDevice, MainDeviceConfig, PduLoop, PduRx, PduTx, Reads, ReceiveAction, RetryBehaviour, Timeouts, Writes};
use std::cell::RefCell;
use std::collections::BTreeMap;
use std::future::Future;
use std::pin::pin;
use std::rc::Rc;
use std::sync::Arc;
use std::task::{Context, Poll};
use std::time::Duration;

/// Heap value handed out as `'static`, freed on drop. The owner must outlive all users.
pub struct Owned<T>(*mut T);

impl<T> Owned<T> {
    pub fn new(v: T) -> Self {
        Owned(Box::into_raw(Box::new(v)))
    }
    pub fn get(&self) -> &'static T {
        unsafe { &*self.0 }
    }
}

impl<T> Drop for Owned<T> {
    fn drop(&mut self) {
        unsafe { drop(Box::from_raw(self.0)) };
    }
}

#[derive(Clone, Copy, Debug, PartialEq, Eq)]
pub enum Prop {
    C01,
    C02,
    C03,
    C06,
    /// C20's sub-poll batch: several tasks on one MainDevice, task 0 disturbs (its requests are lost,
    /// time out, are retried or abandoned at any instant); the others must not notice.
    C20,
    /// C04's wire-monitor batch: the fault mix of C06 (deadlines, retries, loss, abandonment at any
    /// instant) with only the wire monitor and the result oracles active.
    C04,
}

#[derive(Clone, Copy, Debug, PartialEq, Eq)]
pub enum CmdKind {
    Aprd,
    Fprd,
    Brd,
    Lrd,
    Frmw,
    Bwr,
    Apwr,
    Fpwr,
    Lwr,
    Lrw,
    Nop,
}

pub const READ_KINDS: [CmdKind; 5] = [CmdKind::Fprd, CmdKind::Brd, CmdKind::Aprd, CmdKind::Lrd, CmdKind::Frmw];
pub const WRITE_KINDS: [CmdKind; 5] = [CmdKind::Fpwr, CmdKind::Lrw, CmdKind::Bwr, CmdKind::Apwr, CmdKind::Lwr];
pub const ALL_KINDS: [CmdKind; 11] = [
    CmdKind::Fprd,
    CmdKind::Fpwr,
    CmdKind::Brd,
    CmdKind::Lrw,
    CmdKind::Aprd,
    CmdKind::Apwr,
    CmdKind::Bwr,
    CmdKind::Lrd,
    CmdKind::Lwr,
    CmdKind::Frmw,
    CmdKind::Nop,
];

impl CmdKind {
    pub fn code(self) -> u8 {
        match self {
            CmdKind::Nop => 0,
            CmdKind::Aprd => 1,
            CmdKind::Apwr => 2,
            CmdKind::Fprd => 4,
            CmdKind::Fpwr => 5,
            CmdKind::Brd => 7,
            CmdKind::Bwr => 8,
            CmdKind::Lrd => 10,
            CmdKind::Lwr => 11,
            CmdKind::Lrw => 12,
            CmdKind::Frmw => 14,
        }
    }

    /// The ethercrab command for request `key` (unique per request and datagram), plus the four
    /// address bytes the wire must carry for it (computed independently of ethercrab).
    pub fn command(self, key: u32) -> (Command, [u8; 4]) {
        let lo = (key & 0xffff) as u16;
        let hi = ((key >> 16) & 0xffff) as u16;
        let two = |adp: u16, ado: u16| {
            let mut b = [0u8; 4];
            b[0..2].copy_from_slice(&adp.to_le_bytes());
            b[2..4].copy_from_slice(&ado.to_le_bytes());
            b
        };
        match self {
            CmdKind::Nop => (Command::Nop, [0; 4]),
            CmdKind::Aprd => (
                // `Command::aprd` negates the position; build the enum directly as well as through
                // the helper in the public-API ops.
                Command::Read(Reads::Aprd { address: lo, register: hi }),
                two(lo, hi),
            ),
            CmdKind::Fprd => (Command::Read(Reads::Fprd { address: lo, register: hi }), two(lo, hi)),
            CmdKind::Brd => (Command::Read(Reads::Brd { address: lo, register: hi }), two(lo, hi)),
            CmdKind::Frmw => (Command::Read(Reads::Frmw { address: lo, register: hi }), two(lo, hi)),
            CmdKind::Lrd => (Command::Read(Reads::Lrd { address: key }), key.to_le_bytes()),
            CmdKind::Bwr => (Command::Write(Writes::Bwr { address: lo, register: hi }), two(lo, hi)),
            CmdKind::Apwr => (Command::Write(Writes::Apwr { address: lo, register: hi }), two(lo, hi)),
            CmdKind::Fpwr => (Command::Write(Writes::Fpwr { address: lo, register: hi }), two(lo, hi)),
            CmdKind::Lwr => (Command::Write(Writes::Lwr { address: key }), key.to_le_bytes()),
            CmdKind::Lrw => (Command::Write(Writes::Lrw { address: key }), key.to_le_bytes()),
        }
    }

    pub fn is_read(self) -> bool {
        matches!(self, CmdKind::Aprd | CmdKind::Fprd | CmdKind::Brd | CmdKind::Lrd | CmdKind::Frmw)
    }
}

#[derive(Clone, Copy, Debug, PartialEq, Eq)]
pub enum WkcMode {
    /// Expect exactly what the wire will return.
    Exact,
    Ignore,
    /// Expect something else: the call must fail with the working-counter error.
    Wrong,
}

#[derive(Clone, Copy, Debug, PartialEq, Eq)]
pub enum PubKind {
    ReceiveU8,
    ReceiveU16,
    ReceiveU32,
    ReceiveU64,
    ReceiveArr16,
    ReceiveSlice,
    SendReceiveU16,
    SendReceiveU32,
    SendReceiveSlice,
    Send,
}

#[derive(Clone, Debug)]
pub enum Op {
    /// A single-datagram request through the public builder API.
    Public {
        kind: PubKind,
        cmd: CmdKind,
        len: u16,
        wkc: WkcMode,
        /// Scheduler steps to hold a returned view before re-reading it.
        hold: u8,
        /// Front trim to apply to a returned view.
        trim: Option<u16>,
        /// Drop the future after this many unsuccessful polls (abandonment).
        abandon_after: Option<u8>,
    },
    /// A multi-datagram frame through the hook wrappers (the order of operations the crate itself uses).
    Multi {
        dgs: Vec<(CmdKind, u16)>,
        iter: bool,
        hold: u8,
        abandon_after: Option<u8>,
        /// Drop the frame after building it, without marking it sendable.
        drop_unsent: bool,
    },
}

#[derive(Clone, Debug)]
pub struct ScenCfg {
    pub prop: Prop,
    pub slots: usize,
    pub frame_len: usize,
    pub tasks: Vec<Vec<Op>>,
    /// Application tasks block on their waker (true) or re-poll eagerly (false).
    pub waker_driven: bool,
    pub pdu_timeout_us: u64,
    pub retry: RetryBehaviour,
    pub strategy: Strategy,
    pub timer_fire: (u32, u32),
    /// Per-transmission fault rates (out of 100).
    pub tx_error: u32,
    pub tx_partial: u32,
    pub loss: u32,
    pub dup: u32,
    /// Deliver responses even before the slot reached Sent (outside C01's precondition).
    pub early: u32,
    /// Percentage of responses that come back longer than the request (trailing bytes after the
    /// last datagram, announced by the EtherCAT length field), as far as the slot has room.
    pub long_resp: u32,
    /// Percentage of responses preceded or followed by a forged copy whose EtherCAT length exceeds
    /// the slot's datagram area by 1..16 bytes (it must be refused and leave the slot usable).
    pub oversize: u32,
    pub garbage: u32,
    /// Which task is "under observation" for C06 (losses apply only to it); None = all.
    pub observed: Option<usize>,
    /// Lose every transmission of the observed task's requests.
    pub lose_all_observed: bool,
    /// Only let deadlines expire when TX has serviced every sendable frame (C06 count clause).
    pub tx_priority: bool,
    /// C01 "late poll": finite deadlines that may only expire once every outstanding response has
    /// been received; the caller, polled late, must still get its data.
    pub late_poll: bool,
    pub hb: bool,
    pub trans: TransMode,
    pub max_steps: u64,
    /// Run the C03 reallocation probe at the end.
    pub realloc_probe: bool,
    /// Response address bytes may be altered by the wire for auto-increment/broadcast commands.
    pub alter_adp: bool,
    /// TX closure looks at the bytes at several moments with scheduling points in between.
    pub tx_multi_read: bool,
}

#[derive(Clone, Debug)]
pub struct DgExpect {
    pub cmd: u8,
    pub addr: [u8; 4],
    pub len: u16,
    pub data: Vec<u8>,
    pub wkc: u16,
    /// Bytes the request carried (for writes).
    pub sent: Vec<u8>,
}

#[derive(Clone, Debug, PartialEq, Eq)]
pub enum ReqStatus {
    Building,
    NotIssued,
    Issued,
    Completed,
    Abandoned,
    Failed(String),
}

#[derive(Clone, Debug)]
pub struct ReqRec {
    pub task: usize,
    pub op: usize,
    pub dgs: Vec<DgExpect>,
    pub status: ReqStatus,
    pub created_at: u64,
    pub resolved_at: u64,
    pub transmissions: Vec<(u64, u64)>, // (time, hash of bytes)
    pub first_tx_bytes: Vec<u8>,
    pub retransmit_differs: bool,
    pub responses_delivered: u32,
    pub responses_processed: u32,
    pub processed_step: Option<u64>,
    pub last_poll_step: u64,
    pub all_lost: bool,
    pub any_lost: bool,
    pub slot: Option<usize>,
    pub checked: bool,
}

#[derive(Clone, Debug)]
pub struct InFlight {
    pub bytes: Vec<u8>,
    pub req: Option<usize>,
    pub slot: Option<usize>,
    /// Deliverable once `ctx.sent_count[slot] > sent_mark` (or immediately, if `early`).
    pub sent_mark: u64,
    pub early: bool,
    pub genuine: bool,
}

#[derive(Default, Clone, Debug)]
pub struct Stats {
    pub frames_tx: u64,
    pub frames_rx: u64,
    pub rx_processed: u64,
    pub rx_ignored: u64,
    pub rx_err: u64,
    pub faults: BTreeMap<&'static str, u64>,
    pub ops_completed: u64,
    pub ops_abandoned: u64,
    pub ops_backpressure: u64,
    pub views_held: u64,
    pub trims: u64,
    pub overlap_max: usize,
}

pub struct Scen {
    pub cfg: ScenCfg,
    pub nonce: u64,
    pub wire: Vec<InFlight>,
    pub reqs: Vec<ReqRec>,
    /// (cmd, addr bytes) -> (req, datagram#)
    pub keys: BTreeMap<(u8, [u8; 4]), (usize, usize)>,
    pub stats: Stats,
    pub rx_flag: Option<Arc<Flag>>,
    pub tx_flag: Option<Arc<Flag>>,
    pub apps_done: usize,
    pub wire_anomalies: Vec<(&'static str, String)>,
    pub outstanding: usize,
}

impl Scen {
    fn fault(&mut self, name: &'static str) {
        *self.stats.faults.entry(name).or_insert(0) += 1;
    }
}

type Sh = Rc<RefCell<Scen>>;

fn resp_byte(nonce: u64, req: usize, dg: usize, i: usize) -> u8 {
    (mix(&[nonce, req as u64, dg as u64, (i / 8) as u64]) >> ((i % 8) * 8)) as u8
}

fn req_byte(nonce: u64, req: usize, dg: usize, i: usize) -> u8 {
    (mix(&[nonce ^ 0x5151_5151, req as u64, dg as u64, (i / 8) as u64]) >> ((i % 8) * 8)) as u8
}

fn resp_wkc(nonce: u64, req: usize, dg: usize) -> u16 {
    (mix(&[nonce ^ 0xabcd, req as u64, dg as u64]) % 4) as u16
}

/// Register a new request and its expected per-datagram responses.
fn new_request(sh: &Sh, task: usize, op: usize, dgs: &[(CmdKind, u16)]) -> (usize, Vec<(Command, Vec<u8>)>) {
    let mut s = sh.borrow_mut();
    let req = s.reqs.len();
    let nonce = s.nonce;
    let mut exp = Vec::new();
    let mut cmds = Vec::new();
    for (dg, (kind, len)) in dgs.iter().enumerate() {
        let key: u32 = 0x4000_0000 | ((req as u32) << 8) | dg as u32;
        let (cmd, addr) = kind.command(key);
        let data: Vec<u8> = (0..*len as usize).map(|i| resp_byte(nonce, req, dg, i)).collect();
        let sent: Vec<u8> = if kind.is_read() || *kind == CmdKind::Nop {
            vec![0; *len as usize]
        } else {
            (0..*len as usize).map(|i| req_byte(nonce, req, dg, i)).collect()
        };
        s.keys.insert((kind.code(), addr), (req, dg));
        exp.push(DgExpect {
            cmd: kind.code(),
            addr,
            len: *len,
            data,
            wkc: resp_wkc(nonce, req, dg),
            sent: sent.clone(),
        });
        cmds.push((cmd, sent));
    }
    let all_lost = s.cfg.lose_all_observed && s.cfg.observed == Some(task);
    s.reqs.push(ReqRec {
        task,
        op,
        dgs: exp,
        status: ReqStatus::Building,
        created_at: clock::now(),
        resolved_at: 0,
        transmissions: Vec::new(),
        first_tx_bytes: Vec::new(),
        retransmit_differs: false,
        responses_delivered: 0,
        responses_processed: 0,
        processed_step: None,
        last_poll_step: 0,
        all_lost,
        any_lost: false,
        slot: None,
        checked: false,
    });
    (req, cmds)
}

/// Poll a future to completion inside a fibre. Returns `None` if it was abandoned (dropped).
fn drive<F: Future>(sh: &Sh, me: usize, req: usize, fut: F, abandon_after: Option<u8>) -> Option<F::Output> {
    let mut fut = pin!(fut);
    let flag = with(|c| c.parties[me].wake.clone());
    let waker = enginef::waker_of(&flag);
    let mut cx = Context::from_waker(&waker);
    let waker_driven = sh.borrow().cfg.waker_driven;
    let mut polls = 0u32;
    loop {
        let step = with(|c| c.steps);
        sh.borrow_mut().reqs[req].last_poll_step = step;
        match fut.as_mut().poll(&mut cx) {
            Poll::Ready(x) => return Some(x),
            Poll::Pending => {}
        }
        if polls == 0 {
            let mut s = sh.borrow_mut();
            if s.reqs[req].status == ReqStatus::Building {
                s.reqs[req].status = ReqStatus::Issued;
                s.outstanding += 1;
                let o = s.outstanding;
                if o > s.stats.overlap_max {
                    s.stats.overlap_max = o;
                }
            }
        }
        polls += 1;
        if let Some(k) = abandon_after {
            if polls > k as u32 {
                // The drop does not have to follow the unsuccessful poll immediately: a cancelled
                // task is dropped whenever its owner gets round to it, by which time the TX or RX
                // side may have moved the slot on (e.g. the response may have arrived: RxDone).
                let wait = with(|c| c.tape.choose(4, "abandon_delay_yields"));
                for _ in 0..wait {
                    enginef::yield_now();
                }
                return None;
            }
        }
        if waker_driven {
            enginef::park();
        } else {
            enginef::yield_now();
        }
    }
}

fn finish_req(sh: &Sh, req: usize, status: ReqStatus) {
    let mut s = sh.borrow_mut();
    if s.reqs[req].status == ReqStatus::Issued {
        s.outstanding = s.outstanding.saturating_sub(1);
    }
    s.reqs[req].status = status;
    s.reqs[req].resolved_at = clock::now();
}

fn anomaly(clause: &'static str, detail: String) {
    with(|c| {
        let site = c.parties[c.cur].last_site;
        c.anomaly(clause, detail, vec![site]);
    });
}

fn le_value(data: &[u8], n: usize) -> u64 {
    let mut v = 0u64;
    for i in 0..n.min(8) {
        v |= (data[i] as u64) << (8 * i);
    }
    v
}

/// Check a returned view against the expected datagram: length, content, stability while held, and
/// front trimming.
fn check_view(sh: &Sh, req: usize, dg: usize, pdu: &mut verif::ReceivedPdu<'_>, hold: u8, trim: Option<u16>) {
    let exp = sh.borrow().reqs[req].dgs[dg].clone();
    if pdu.len() != exp.data.len() {
        anomaly(
            "view-length",
            format!("req {} dg {}: view length {} != datagram length {}", req, dg, pdu.len(), exp.data.len()),
        );
        return;
    }
    if &pdu[..] != &exp.data[..] {
        anomaly(
            "wrong-bytes",
            format!("req {} dg {}: view shows {:02x?}, network returned {:02x?}", req, dg, &pdu[..], exp.data),
        );
        return;
    }
    if hold > 0 {
        sh.borrow_mut().stats.views_held += 1;
        for _ in 0..hold {
            enginef::yield_now();
        }
        if &pdu[..] != &exp.data[..] {
            enginef::probe("held_view_changed");
            anomaly(
                "view-changed-while-held",
                format!(
                    "req {} dg {}: view held for {} steps now shows {:02x?}, network returned {:02x?}",
                    req,
                    dg,
                    hold,
                    &pdu[..],
                    exp.data
                ),
            );
            return;
        }
    }
    if let Some(t) = trim {
        sh.borrow_mut().stats.trims += 1;
        let t = t as usize;
        pdu.trim_front(t);
        let want = &exp.data[t.min(exp.data.len())..];
        if pdu.len() != want.len() || &pdu[..] != want {
            anomaly(
                "trim-front-view",
                format!(
                    "req {} dg {}: after trim_front({}) of a {} byte datagram the view has {} bytes {:02x?}; the data area from there is {} bytes {:02x?}",
                    req,
                    dg,
                    t,
                    exp.data.len(),
                    pdu.len(),
                    &pdu[..],
                    want.len(),
                    want
                ),
            );
        }
    }
}

fn expect_wkc(mode: WkcMode, actual: u16) -> Option<u16> {
    match mode {
        WkcMode::Exact => Some(actual),
        WkcMode::Ignore => None,
        WkcMode::Wrong => Some(actual.wrapping_add(1)),
    }
}

/// Judge the result of a single-datagram public-API call that returns a value or a view.
fn judge_err(sh: &Sh, req: usize, e: Error, wkc_mode: WkcMode) -> ReqStatus {
    let (exp_wkc, all_lost, prop, any_lost) = {
        let s = sh.borrow();
        (s.reqs[req].dgs[0].wkc, s.reqs[req].all_lost, s.cfg.prop, s.reqs[req].any_lost)
    };
    if prop == Prop::C20 {
        if let Some(st) = c20_judge_err(sh, req, &e) {
            return st;
        }
    }
    match e {
        Error::WorkingCounter { expected, received } if wkc_mode == WkcMode::Wrong => {
            if received != exp_wkc || expected != exp_wkc.wrapping_add(1) {
                anomaly(
                    "wrong-wkc-error",
                    format!(
                        "req {}: WorkingCounter{{expected {}, received {}}} but the wire returned {} and the caller expected {}",
                        req,
                        expected,
                        received,
                        exp_wkc,
                        exp_wkc.wrapping_add(1)
                    ),
                );
            }
            ReqStatus::Completed
        }
        Error::Pdu(PduError::SwapState) => ReqStatus::NotIssued,
        Error::Timeout(_) if prop == Prop::C06 || prop == Prop::C03 || prop == Prop::C20 || prop == Prop::C04 => {
            let _ = (all_lost, any_lost);
            ReqStatus::Failed(format!("{:?}", e))
        }
        other => {
            anomaly(
                "unexpected-error",
                format!("req {}: call failed with {:?} although its response was returned by the network", req, other),
            );
            ReqStatus::Failed(format!("{:?}", other))
        }
    }
}

/// C20: an operation of a task other than the disturbing one must not fail because of the others,
/// and allocation must not fail while fewer frames are in flight than the storage holds.
fn c20_judge_err(sh: &Sh, req: usize, e: &Error) -> Option<ReqStatus> {
    let (task, observed, any_lost) = {
        let s = sh.borrow();
        (s.reqs[req].task, s.cfg.observed, s.reqs[req].any_lost || s.reqs[req].all_lost)
    };
    match e {
        Error::Pdu(PduError::SwapState) => {
            anomaly(
                "allocation-failed-with-free-slots",
                format!("req {} (task {}): no frame could be allocated although fewer frames are in flight than the storage holds", req, task),
            );
            Some(ReqStatus::Failed(format!("{:?}", e)))
        }
        Error::Timeout(_) if Some(task) == observed && any_lost => Some(ReqStatus::Failed(format!("{:?}", e))),
        Error::Timeout(_) if Some(task) == observed => None,
        Error::Timeout(_) => {
            anomaly(
                "disturbed-by-other-task",
                format!("req {} (task {}): timed out although the network answered it; only task {:?}'s requests are lost or abandoned in this run", req, task, observed),
            );
            Some(ReqStatus::Failed(format!("{:?}", e)))
        }
        _ => None,
    }
}

macro_rules! receive_typed {
    ($sh:expr, $me:expr, $req:expr, $md:expr, $w:expr, $ab:expr, $mode:expr, $t:ty, $n:expr) => {{
        match drive($sh, $me, $req, $w.receive::<$t>($md), $ab) {
            None => ReqStatus::Abandoned,
            Some(Ok(v)) => {
                let exp = $sh.borrow().reqs[$req].dgs[0].clone();
                let got: u64 = v as u64;
                if $mode == WkcMode::Wrong {
                    anomaly(
                        "wkc-not-checked",
                        format!("req {}: returned Ok although the working counter {} differs from the expected {}", $req, exp.wkc, exp.wkc.wrapping_add(1)),
                    );
                } else if got != le_value(&exp.data, $n) {
                    anomaly(
                        "wrong-bytes",
                        format!("req {}: receive returned {:#x}, network returned {:02x?}", $req, got, exp.data),
                    );
                }
                ReqStatus::Completed
            }
            Some(Err(e)) => judge_err($sh, $req, e, $mode),
        }
    }};
}

fn wrapped_read(cmd: CmdKind, key: u32) -> ethercrab::WrappedRead {
    let lo = (key & 0xffff) as u16;
    let hi = ((key >> 16) & 0xffff) as u16;
    match cmd {
        CmdKind::Fprd => Command::fprd(lo, hi),
        CmdKind::Frmw => Command::frmw(lo, hi),
        // `Command::aprd` takes the ring position and negates it.
        CmdKind::Aprd => Command::aprd(0u16.wrapping_sub(lo), hi),
        CmdKind::Lrd => Reads::Lrd { address: key }.wrap(),
        // `Command::brd` always sends address 0; go through `wrap` to carry the key.
        _ => Reads::Brd { address: lo, register: hi }.wrap(),
    }
}

fn wrapped_write(cmd: CmdKind, key: u32) -> ethercrab::WrappedWrite {
    let lo = (key & 0xffff) as u16;
    let hi = ((key >> 16) & 0xffff) as u16;
    match cmd {
        CmdKind::Fpwr => Command::fpwr(lo, hi),
        CmdKind::Apwr => Command::apwr(0u16.wrapping_sub(lo), hi),
        CmdKind::Lrw => Command::lrw(key),
        CmdKind::Lwr => Command::lwr(key),
        // There is no public constructor for a BWR with a non-zero address; use FPWR instead.
        _ => Command::fpwr(lo, hi),
    }
}

fn run_public_op(
    sh: &Sh,
    me: usize,
    task: usize,
    opi: usize,
    md: &'static MainDevice<'static>,
    kind: PubKind,
    cmd: CmdKind,
    len: u16,
    wkc_mode: WkcMode,
    hold: u8,
    trim: Option<u16>,
    abandon_after: Option<u8>,
) {
    // Normalise the command kind to what the chosen builder can express.
    let is_read_api = matches!(
        kind,
        PubKind::ReceiveU8 | PubKind::ReceiveU16 | PubKind::ReceiveU32 | PubKind::ReceiveU64 | PubKind::ReceiveArr16 | PubKind::ReceiveSlice
    );
    let cmd = if is_read_api {
        if cmd.is_read() {
            cmd
        } else {
            CmdKind::Fprd
        }
    } else if cmd.is_read() || cmd == CmdKind::Nop || cmd == CmdKind::Bwr {
        CmdKind::Fpwr
    } else {
        cmd
    };
    let len = match kind {
        PubKind::ReceiveU8 => 1,
        PubKind::ReceiveU16 | PubKind::SendReceiveU16 => 2,
        PubKind::ReceiveU32 | PubKind::SendReceiveU32 => 4,
        PubKind::ReceiveU64 => 8,
        PubKind::ReceiveArr16 => 16,
        _ => len,
    };
    let (req, cmds) = new_request(sh, task, opi, &[(cmd, len)]);
    let key: u32 = 0x4000_0000 | ((req as u32) << 8);
    let exp_wkc = sh.borrow().reqs[req].dgs[0].wkc;
    let status = if is_read_api {
        let w = wrapped_read(cmd, key);
        let w = match expect_wkc(wkc_mode, exp_wkc) {
            Some(x) => w.with_wkc(x),
            None => w.ignore_wkc(),
        };
        match kind {
            PubKind::ReceiveU8 => receive_typed!(sh, me, req, md, w, abandon_after, wkc_mode, u8, 1),
            PubKind::ReceiveU16 => receive_typed!(sh, me, req, md, w, abandon_after, wkc_mode, u16, 2),
            PubKind::ReceiveU32 => receive_typed!(sh, me, req, md, w, abandon_after, wkc_mode, u32, 4),
            PubKind::ReceiveU64 => receive_typed!(sh, me, req, md, w, abandon_after, wkc_mode, u64, 8),
            PubKind::ReceiveArr16 => match drive(sh, me, req, w.receive::<[u8; 16]>(md), abandon_after) {
                None => ReqStatus::Abandoned,
                Some(Ok(v)) => {
                    let exp = sh.borrow().reqs[req].dgs[0].clone();
                    if wkc_mode == WkcMode::Wrong {
                        anomaly("wkc-not-checked", format!("req {}: Ok despite working counter mismatch", req));
                    } else if v[..] != exp.data[..] {
                        anomaly("wrong-bytes", format!("req {}: receive returned {:02x?}, network returned {:02x?}", req, v, exp.data));
                    }
                    ReqStatus::Completed
                }
                Some(Err(e)) => judge_err(sh, req, e, wkc_mode),
            },
            _ => match drive(sh, me, req, w.receive_slice(md, len), abandon_after) {
                None => ReqStatus::Abandoned,
                Some(Ok(mut pdu)) => {
                    if wkc_mode == WkcMode::Wrong {
                        anomaly("wkc-not-checked", format!("req {}: Ok despite working counter mismatch", req));
                    } else {
                        check_view(sh, req, 0, &mut pdu, hold, trim);
                    }
                    ReqStatus::Completed
                }
                Some(Err(e)) => judge_err(sh, req, e, wkc_mode),
            },
        }
    } else {
        let w = wrapped_write(cmd, key);
        let w = match expect_wkc(wkc_mode, exp_wkc) {
            Some(x) => w.with_wkc(x),
            None => w.ignore_wkc(),
        };
        let payload: Vec<u8> = cmds[0].1.clone();
        match kind {
            PubKind::SendReceiveU16 => {
                let v = u16::from_le_bytes([payload[0], payload[1]]);
                match drive(sh, me, req, w.send_receive::<u16>(md, v), abandon_after) {
                    None => ReqStatus::Abandoned,
                    Some(Ok(got)) => {
                        let exp = sh.borrow().reqs[req].dgs[0].clone();
                        if wkc_mode == WkcMode::Wrong {
                            anomaly("wkc-not-checked", format!("req {}: Ok despite working counter mismatch", req));
                        } else if got as u64 != le_value(&exp.data, 2) {
                            anomaly("wrong-bytes", format!("req {}: send_receive returned {:#x}, network returned {:02x?}", req, got, exp.data));
                        }
                        ReqStatus::Completed
                    }
                    Some(Err(e)) => judge_err(sh, req, e, wkc_mode),
                }
            }
            PubKind::SendReceiveU32 => {
                let v = u32::from_le_bytes([payload[0], payload[1], payload[2], payload[3]]);
                match drive(sh, me, req, w.send_receive::<u32>(md, v), abandon_after) {
                    None => ReqStatus::Abandoned,
                    Some(Ok(got)) => {
                        let exp = sh.borrow().reqs[req].dgs[0].clone();
                        if wkc_mode == WkcMode::Wrong {
                            anomaly("wkc-not-checked", format!("req {}: Ok despite working counter mismatch", req));
                        } else if got as u64 != le_value(&exp.data, 4) {
                            anomaly("wrong-bytes", format!("req {}: send_receive returned {:#x}, network returned {:02x?}", req, got, exp.data));
                        }
                        ReqStatus::Completed
                    }
                    Some(Err(e)) => judge_err(sh, req, e, wkc_mode),
                }
            }
            PubKind::Send => {
                // Fire-and-forget: ignores the working counter by contract (outside C11's quantifier).
                match drive(sh, me, req, w.with_len(len).send(md, &payload[..]), abandon_after) {
                    None => ReqStatus::Abandoned,
                    Some(Ok(())) => ReqStatus::Completed,
                    Some(Err(e)) => judge_err(sh, req, e, WkcMode::Ignore),
                }
            }
            _ => match drive(sh, me, req, w.send_receive_slice(md, &payload[..]), abandon_after) {
                None => ReqStatus::Abandoned,
                Some(Ok(mut pdu)) => {
                    if wkc_mode == WkcMode::Wrong {
                        anomaly("wkc-not-checked", format!("req {}: Ok despite working counter mismatch", req));
                    } else {
                        check_view(sh, req, 0, &mut pdu, hold, trim);
                    }
                    ReqStatus::Completed
                }
                Some(Err(e)) => judge_err(sh, req, e, wkc_mode),
            },
        }
    };
    note_status(sh, req, status);
}

/// C06's per-request clauses, judged when the request resolves.
fn c06_clauses(sh: &Sh, req: usize, status: &ReqStatus) {
    let s = sh.borrow();
    if s.cfg.prop != Prop::C06 && s.cfg.prop != Prop::C03 && s.cfg.prop != Prop::C20 {
        return;
    }
    let r = &s.reqs[req];
    let retries: Option<usize> = match s.cfg.retry {
        RetryBehaviour::None => Some(0),
        RetryBehaviour::Count(n) => Some(n),
        RetryBehaviour::Forever => None,
    };
    let t = s.cfg.pdu_timeout_us;
    let mut found: Option<(&'static str, String)> = None;
    if r.all_lost && *status == ReqStatus::Completed {
        found = Some((
            "lost-request-succeeded",
            format!("req {}: every transmission was lost, yet the call completed instead of timing out", req),
        ));
    }
    if r.retransmit_differs {
        found = Some((
            "retransmission-differs",
            format!("req {}: a retransmission was not byte-identical to the first transmission", req),
        ));
    }
    if let Some(n) = retries {
        if r.transmissions.len() > 1 + n {
            found = Some((
                "too-many-transmissions",
                format!("req {}: transmitted {} times with a retry budget of {}", req, r.transmissions.len(), n),
            ));
        }
        if let ReqStatus::Failed(why) = status {
            if why.starts_with("Timeout") {
                let elapsed = clock::now().saturating_sub(r.created_at);
                if elapsed < (1 + n as u64) * t {
                    found = Some((
                        "timeout-too-early",
                        format!("req {}: timed out after {} us; {} transmissions of {} us each were due", req, elapsed, 1 + n, t),
                    ));
                }
                if s.cfg.tx_priority && r.all_lost && s.cfg.tx_error == 0 && r.transmissions.len() != 1 + n {
                    found = Some((
                        "wrong-transmission-count",
                        format!(
                            "req {}: resolved to a timeout after {} transmissions; exactly {} (1 + {} retries) were due (the TX task serviced every sendable frame before each deadline)",
                            req,
                            r.transmissions.len(),
                            1 + n,
                            n
                        ),
                    ));
                }
            }
        }
    }
    if let ReqStatus::Failed(why) = status {
        if why.starts_with("Timeout") {
            if let Some(ps) = r.processed_step {
                if ps < r.last_poll_step && r.responses_processed > 0 {
                    found = Some((
                        "deadline-beat-response",
                        format!(
                            "req {}: its response had been fully received (step {}) before the poll that returned the timeout began (step {})",
                            req, ps, r.last_poll_step
                        ),
                    ));
                }
            }
        }
    }
    drop(s);
    if let Some((clause, detail)) = found {
        anomaly(clause, detail);
    }
}

fn note_status(sh: &Sh, req: usize, status: ReqStatus) {
    c06_clauses(sh, req, &status);
    {
        let mut s = sh.borrow_mut();
        match status {
            ReqStatus::Completed => s.stats.ops_completed += 1,
            ReqStatus::Abandoned => s.stats.ops_abandoned += 1,
            ReqStatus::NotIssued => s.stats.ops_backpressure += 1,
            _ => {}
        }
    }
    finish_req(sh, req, status);
}

fn run_multi_op(
    sh: &Sh,
    me: usize,
    task: usize,
    opi: usize,
    pl: &'static PduLoop<'static>,
    dgs: &[(CmdKind, u16)],
    iter: bool,
    hold: u8,
    abandon_after: Option<u8>,
    drop_unsent: bool,
) {
    let (timeout, retries) = {
        let s = sh.borrow();
        (
            Duration::from_micros(s.cfg.pdu_timeout_us),
            match s.cfg.retry {
                RetryBehaviour::None => 0,
                RetryBehaviour::Count(n) => n,
                RetryBehaviour::Forever => usize::MAX,
            },
        )
    };
    let mut frame = match verif::alloc_frame(pl) {
        Ok(f) => f,
        Err(Error::Pdu(PduError::SwapState)) => {
            if sh.borrow().cfg.prop == Prop::C20 {
                anomaly(
                    "allocation-failed-with-free-slots",
                    format!("task {}: no frame could be allocated although fewer frames are in flight than the storage holds", task),
                );
            }
            sh.borrow_mut().stats.ops_backpressure += 1;
            return;
        }
        Err(e) => {
            anomaly("unexpected-error", format!("alloc_frame failed with {:?}", e));
            return;
        }
    };
    // Push as many of the planned datagrams as fit; the request is what was accepted.
    let cap = verif::frame_len(pl) - 16;
    let mut used = 0usize;
    let mut accepted: Vec<(CmdKind, u16)> = Vec::new();
    for (k, l) in dgs {
        if used + 12 + *l as usize <= cap {
            accepted.push((*k, *l));
            used += 12 + *l as usize;
        }
    }
    if accepted.is_empty() {
        accepted.push((dgs[0].0, 0));
    }
    // A NOP carries no address, so it cannot identify the request on the wire: never first.
    if accepted[0].0 == CmdKind::Nop {
        accepted[0].0 = CmdKind::Brd;
    }
    let (req, cmds) = new_request(sh, task, opi, &accepted);
    let mut handles = Vec::new();
    for (i, (cmd, payload)) in cmds.iter().enumerate() {
        match verif::push_pdu(&mut frame, *cmd, &payload[..], Some(accepted[i].1)) {
            Ok(h) => handles.push(h),
            Err(e) => {
                anomaly(
                    "push-refused",
                    format!("req {}: push of datagram {} ({} bytes) refused with {:?} although {} of {} payload bytes were used", req, i, accepted[i].1, e, used, cap),
                );
                note_status(sh, req, ReqStatus::Failed("push".into()));
                return;
            }
        }
    }
    if drop_unsent {
        drop(frame);
        note_status(sh, req, ReqStatus::Abandoned);
        return;
    }
    let fut = verif::mark_sendable(frame, pl, timeout, retries);
    let status = match drive(sh, me, req, fut, abandon_after) {
        None => ReqStatus::Abandoned,
        Some(Err(e)) => judge_err(sh, req, e, WkcMode::Ignore),
        Some(Ok(received)) => {
            if iter {
                let mut n = 0;
                let mut it = received.into_pdu_iter();
                loop {
                    match it.next() {
                        None => break,
                        Some(Err(e)) => {
                            anomaly("unexpected-error", format!("req {}: response iterator yielded {:?}", req, e));
                            break;
                        }
                        Some(Ok(mut pdu)) => {
                            if n >= handles.len() {
                                anomaly("wrong-bytes", format!("req {}: response iterator yields more than the {} datagrams sent", req, handles.len()));
                                break;
                            }
                            let exp_wkc = sh.borrow().reqs[req].dgs[n].wkc;
                            match pdu.wkc(exp_wkc) {
                                Ok(p) => pdu = p,
                                Err(e) => {
                                    anomaly("wrong-bytes", format!("req {} dg {}: working counter check failed with {:?}, wire returned {}", req, n, e, exp_wkc));
                                    break;
                                }
                            }
                            // Views from the iterator are only valid while the iterator is alive.
                            check_view(sh, req, n, &mut pdu, hold.min(2), None);
                            n += 1;
                        }
                    }
                }
                if n != handles.len() && with(|c| c.anomalies.is_empty()) {
                    anomaly("wrong-bytes", format!("req {}: response iterator yielded {} of {} datagrams", req, n, handles.len()));
                }
                drop(it);
            } else {
                let h = handles.remove(0);
                match received.first_pdu(h) {
                    Ok(pdu) => {
                        let exp_wkc = sh.borrow().reqs[req].dgs[0].wkc;
                        match pdu.wkc(exp_wkc) {
                            Ok(mut pdu) => check_view(sh, req, 0, &mut pdu, hold, None),
                            Err(e) => anomaly("wrong-bytes", format!("req {}: working counter check failed with {:?}, wire returned {}", req, e, exp_wkc)),
                        }
                    }
                    Err(e) => anomaly("unexpected-error", format!("req {}: first_pdu failed with {:?}", req, e)),
                }
            }
            ReqStatus::Completed
        }
    };
    note_status(sh, req, status);
}

/// The wire's entry point: what the TX party's send closure does with the bytes.
fn wire_send(sh: &Sh, bytes: &[u8]) -> Result<usize, Error> {
    let (slot, sent_mark) = with(|c| {
        let s = c.tx_in_slot;
        (s, s.map_or(0, |s| c.sent_count[s]))
    });
    // The TX side is inside the buffer: look at it at up to three moments.
    let multi = sh.borrow().cfg.tx_multi_read;
    let first = bytes.to_vec();
    if multi {
        let looks = with(|c| c.tape.choose(3, "tx_looks"));
        for _ in 0..looks {
            enginef::yield_now();
            if let Some(s) = slot {
                // Report our own read of the buffer to the race detector.
                let (base, len) = with(|c| (c.slots.base + s * c.slots.stride + c.slots.buf_off, bytes.len()));
                enginef::hook(verif::Event::BufAccess {
                    site: verif::site::SEND_AFTER_CLOSURE,
                    frame: 0,
                    lo: base,
                    hi: base + len,
                    write: false,
                });
            }
            if bytes != &first[..] {
                anomaly(
                    "tx-buffer-changed",
                    format!("slot {:?}: the bytes being transmitted changed while the network driver held them", slot),
                );
                break;
            }
        }
    }
    let frame_len = sh.borrow().cfg.frame_len;
    let decoded = match wire::check_well_formed(&first, frame_len) {
        Ok(f) => f,
        Err(why) => {
            sh.borrow_mut().wire_anomalies.push(("malformed-frame", why.clone()));
            anomaly("malformed-frame", why);
            return Ok(first.len());
        }
    };
    // Attribute the frame to a request through the address bytes of its first datagram.
    let mut s = sh.borrow_mut();
    s.stats.frames_tx += 1;
    let d0 = &decoded.datagrams[0];
    let who = s.keys.get(&(d0.cmd, d0.addr)).copied();
    let Some((req, _)) = who else {
        let why = format!("transmitted datagram cmd {} addr {:02x?} belongs to no request", d0.cmd, d0.addr);
        drop(s);
        anomaly("malformed-frame", why);
        return Ok(first.len());
    };
    // Compare with what was asked.
    let mut mismatch = None;
    if decoded.datagrams.len() != s.reqs[req].dgs.len() {
        mismatch = Some(format!("{} datagrams on the wire, {} requested", decoded.datagrams.len(), s.reqs[req].dgs.len()));
    } else {
        for (i, (d, e)) in decoded.datagrams.iter().zip(s.reqs[req].dgs.iter()).enumerate() {
            if d.cmd != e.cmd || d.addr != e.addr || d.len != e.len || d.data != e.sent {
                mismatch = Some(format!(
                    "datagram {}: wire has cmd {} addr {:02x?} len {} data {:02x?}; requested cmd {} addr {:02x?} len {} data {:02x?}",
                    i, d.cmd, d.addr, d.len, d.data, e.cmd, e.addr, e.len, e.sent
                ));
                break;
            }
        }
    }
    if let Some(m) = mismatch {
        drop(s);
        anomaly("frame-not-as-requested", format!("req {}: {}", req, m));
        return Ok(first.len());
    }
    // Transmission bookkeeping (C06).
    let h = mix(&[first.len() as u64, first.iter().fold(0u64, |a, b| a.wrapping_mul(131).wrapping_add(*b as u64))]);
    let now = clock::now();
    s.reqs[req].slot = slot;
    // Send faults are decided before the frame counts as transmitted.
    let (tx_error, tx_partial) = (s.cfg.tx_error, s.cfg.tx_partial);
    drop(s);
    if tx_error > 0 && with(|c| c.tape.flag(tx_error, 100, "tx_error")) {
        sh.borrow_mut().fault("tx_error");
        return Err(Error::SendFrame);
    }
    if tx_partial > 0 && with(|c| c.tape.flag(tx_partial, 100, "tx_partial")) {
        sh.borrow_mut().fault("tx_partial");
        let cut = with(|c| c.tape.choose(first.len(), "tx_partial_len"));
        return Ok(cut);
    }
    let mut s = sh.borrow_mut();
    if s.reqs[req].transmissions.is_empty() {
        s.reqs[req].first_tx_bytes = first.clone();
    } else if s.reqs[req].first_tx_bytes != first {
        s.reqs[req].retransmit_differs = true;
    }
    s.reqs[req].transmissions.push((now, h));
    // Build the response.
    let mut resp = decoded.clone();
    let alter = s.cfg.alter_adp;
    for (i, d) in resp.datagrams.iter_mut().enumerate() {
        let e = &s.reqs[req].dgs[i];
        d.data = e.data.clone();
        d.wkc = e.wkc;
        if alter && matches!(d.cmd, wire::CMD_APRD | wire::CMD_APWR | wire::CMD_BRD | wire::CMD_BWR) {
            // Every device increments the auto-increment/broadcast address field.
            let adp = d.adp().wrapping_add(3);
            d.set_adp(adp);
        }
    }
    let mut bytes_out = wire::encode_response(&resp);
    let mut long_fired = false;
    if s.cfg.long_resp > 0 {
        let room = s.cfg.frame_len.saturating_sub(bytes_out.len());
        if room > 0 && with(|c| c.tape.flag(s.cfg.long_resp, 100, "long_response")) {
            let k = 1 + with(|c| c.tape.choose(room.min(40), "long_response_extra"));
            let hdr = u16::from_le_bytes([bytes_out[14], bytes_out[15]]);
            let len = (hdr & 0x07ff) as usize + k;
            if len <= 0x07ff {
                let hdr = (hdr & !0x07ff) | len as u16;
                bytes_out[14..16].copy_from_slice(&hdr.to_le_bytes());
                bytes_out.extend(std::iter::repeat(0xEE).take(k));
                long_fired = true;
            }
        }
    }
    let oversize_copy: Option<Vec<u8>> = if s.cfg.oversize > 0 && with(|c| c.tape.flag(s.cfg.oversize, 100, "oversize_copy")) {
        let k = 1 + with(|c| c.tape.choose(16, "oversize_by"));
        let mut b = wire::encode_response(&resp);
        let len = s.cfg.frame_len - 16 + k;
        if len <= 0x07ff && 16 + len >= b.len() {
            let hdr = u16::from_le_bytes([b[14], b[15]]);
            b[14..16].copy_from_slice(&((hdr & !0x07ff) | len as u16).to_le_bytes());
            b.resize(16 + len, 0xEE);
            Some(b)
        } else {
            None
        }
    } else {
        None
    };
    let observed = s.cfg.observed.map_or(true, |t| t == s.reqs[req].task);
    let lose_all = s.reqs[req].all_lost;
    let (loss, dup, early) = (s.cfg.loss, s.cfg.dup, s.cfg.early);
    drop(s);
    let lost = lose_all || (observed && loss > 0 && with(|c| c.tape.flag(loss, 100, "loss")));
    if lost {
        let mut s = sh.borrow_mut();
        s.fault("loss");
        s.reqs[req].any_lost = true;
        return Ok(first.len());
    }
    let is_early = early > 0 && with(|c| c.tape.flag(early, 100, "early"));
    let is_dup = dup > 0 && with(|c| c.tape.flag(dup, 100, "dup"));
    let mut s = sh.borrow_mut();
    if is_early {
        s.fault("early");
    }
    if long_fired {
        s.fault("long_response");
    }
    if is_early && crate::tape::gen() >= 2 {
        // A premature copy (deliverable at once) in addition to the regular response.
        s.wire.push(InFlight {
            bytes: bytes_out.clone(),
            req: Some(req),
            slot,
            sent_mark,
            early: true,
            genuine: false,
        });
    }
    s.wire.push(InFlight {
        bytes: bytes_out.clone(),
        req: Some(req),
        slot,
        sent_mark,
        early: is_early && crate::tape::gen() < 2,
        genuine: true,
    });
    if oversize_copy.is_some() {
        s.fault("oversize");
    }
    if let Some(b) = oversize_copy {
        s.wire.push(InFlight { bytes: b, req: Some(req), slot, sent_mark, early: false, genuine: false });
    }
    if is_dup {
        s.fault("dup");
        s.wire.push(InFlight {
            bytes: bytes_out,
            req: Some(req),
            slot,
            sent_mark,
            early: is_early && crate::tape::gen() < 2,
            genuine: false,
        });
    }
    if let Some(f) = &s.rx_flag {
        f.set();
    }
    Ok(first.len())
}

fn tx_body(sh: Sh, mut tx: PduTx<'static>, me: usize, n_apps: usize) {
    let flag = with(|c| c.parties[me].wake.clone());
    let waker = enginef::waker_of(&flag);
    loop {
        tx.replace_waker(&waker);
        let mut sent_any = false;
        let mut failures = 0;
        while let Some(frame) = tx.next_sendable_frame() {
            sent_any = true;
            let r = frame.send_blocking(|bytes| wire_send(&sh, bytes));
            if r.is_err() {
                failures += 1;
                if failures > 8 {
                    // Do not spin on a frame whose transmission keeps failing; come back later.
                    break;
                }
            }
        }
        let _ = sent_any;
        if sh.borrow().apps_done >= n_apps {
            // Drain whatever became sendable meanwhile, then stop.
            if tx.next_sendable_frame().is_none() {
                break;
            }
            continue;
        }
        if failures > 8 {
            enginef::yield_now();
        } else {
            enginef::park();
        }
    }
}

fn rx_body(sh: Sh, mut rx: PduRx<'static>, _me: usize, n_apps: usize) {
    loop {
        // Which in-flight responses may be delivered now?
        let pick = {
            let s = sh.borrow();
            let ready: Vec<usize> = with(|c| {
                s.wire
                    .iter()
                    .enumerate()
                    .filter(|(_, w)| w.early || w.slot.map_or(true, |sl| c.sent_count[sl] > w.sent_mark))
                    .map(|(i, _)| i)
                    .collect()
            });
            if ready.is_empty() {
                None
            } else {
                let k = with(|c| c.tape.choose(ready.len(), "rx_order"));
                if k != 0 {
                    enginef::probe("rx_reordered");
                }
                Some(ready[k])
            }
        };
        match pick {
            Some(i) => {
                let item = sh.borrow_mut().wire.remove(i);
                let before_sent = with(|c| item.slot.map_or(true, |sl| c.sent_count[sl] > item.sent_mark));
                if let Some(r) = item.req {
                    sh.borrow_mut().reqs[r].responses_delivered += 1;
                }
                sh.borrow_mut().stats.frames_rx += 1;
                let res = rx.receive_frame(&item.bytes);
                let step = with(|c| c.steps);
                let mut s = sh.borrow_mut();
                match res {
                    Ok(ReceiveAction::Processed) => {
                        s.stats.rx_processed += 1;
                        if let Some(r) = item.req {
                            s.reqs[r].responses_processed += 1;
                            if s.reqs[r].processed_step.is_none() {
                                s.reqs[r].processed_step = Some(step);
                            }
                        }
                    }
                    Ok(ReceiveAction::Ignored) => {
                        s.stats.rx_ignored += 1;
                        if item.genuine && before_sent && s.cfg.prop == Prop::C01 {
                            drop(s);
                            anomaly("response-rejected", format!("genuine response for req {:?} was ignored by the receive side", item.req));
                        }
                    }
                    Err(e) => {
                        s.stats.rx_err += 1;
                        let first_for_req = item.req.map_or(false, |r| {
                            s.reqs[r].responses_processed == 0 && matches!(s.reqs[r].status, ReqStatus::Issued | ReqStatus::Building)
                        });
                        if item.genuine && before_sent && first_for_req && matches!(s.cfg.prop, Prop::C01 | Prop::C02) {
                            drop(s);
                            anomaly(
                                "response-rejected",
                                format!("response for outstanding req {:?}, handed over after its transmission finished, was rejected with {:?}", item.req, e),
                            );
                        }
                    }
                }
            }
            None => {
                let (done, empty) = {
                    let s = sh.borrow();
                    (s.apps_done >= n_apps, s.wire.is_empty())
                };
                if done && empty {
                    break;
                }
                if done {
                    // Items that can never be released (their slot never reached Sent): drop them.
                    sh.borrow_mut().wire.clear();
                    break;
                }
                enginef::park();
            }
        }
    }
}

#[derive(Debug, Clone)]
pub struct RunOutcome {
    pub end: RunEnd,
    pub anomalies: Vec<enginef::Anomaly>,
    pub trace_hash: u64,
    pub trace: Vec<enginef::TraceRec>,
    pub steps: u64,
    pub switches: u64,
    pub inside_switches: u64,
    pub sim_time_us: u64,
    pub stats: Stats,
    pub abstract_states: Vec<u64>,
    pub probes: BTreeMap<&'static str, u64>,
    pub tape: Vec<u32>,
    pub labels: Vec<&'static str>,
    pub nontrivial: bool,
    pub timers_fired: u64,
    pub reqs_summary: Vec<String>,
}

/// Draw a scenario configuration for `prop` from the tape (swarm style: every run differs).
pub fn draw_cfg(prop: Prop, t: &mut Tape, thorough: bool) -> ScenCfg {
    let slots = match prop {
        Prop::C06 | Prop::C04 => t.pick(&[1usize, 2, 1, 2, 4], "slots"),
        Prop::C20 => t.pick(&[4usize, 8], "slots"),
        _ => t.pick(&[2usize, 1, 4, 2, 1, 8], "slots"),
    };
    let frame_len = {
        let sizes = [64usize, 28, 40, 48, 96, 128, 44, 60, 100, 256, 1514];
        t.pick(&sizes, "frame_len")
    };
    let n_tasks = if prop == Prop::C20 {
        // "Fewer frames in flight than the storage holds": every task has one request outstanding,
        // and an abandoned frame may stay claimed while TX or RX is still inside it (one each).
        if slots == 4 { 2 } else { 2 + t.choose(2, "n_tasks") }
    } else {
        1 + t.choose(3, "n_tasks")
    };
    let max_ops = if thorough || prop == Prop::C20 { 6 } else { 4 };
    let cap = frame_len - 28; // payload capacity of a single-datagram frame
    // gen >= 2: C02 also covers the owner letting go by dropping its future (no deadlines), at any
    // instant - also while the transmit or receive side is inside the buffer.
    let c02_abandon = prop == Prop::C02 && crate::tape::gen() >= 2 && t.flag(35, 100, "c02_abandon");
    let abandon_enabled = matches!(prop, Prop::C03 | Prop::C06 | Prop::C20 | Prop::C04) || c02_abandon;
    let mut tasks = Vec::new();
    for ti in 0..n_tasks {
        let n_ops = 1 + t.choose(max_ops, "n_ops");
        let mut ops = Vec::new();
        for _ in 0..n_ops {
            let multi = t.flag(25, 100, "op_multi");
            let abandon_after = if abandon_enabled && (!matches!(prop, Prop::C06 | Prop::C20) || ti == 0) && t.flag(25, 100, "abandon") {
                Some(t.choose(3, "abandon_after") as u8)
            } else {
                None
            };
            if multi {
                let n_dg = 1 + t.choose(6, "n_dg");
                let mut dgs = Vec::new();
                for _ in 0..n_dg {
                    let k = t.pick(&ALL_KINDS, "dg_kind");
                    let l = t.choose((cap.min(40)) + 1, "dg_len") as u16;
                    dgs.push((k, l));
                }
                ops.push(Op::Multi {
                    dgs,
                    iter: t.flag(50, 100, "multi_iter"),
                    hold: t.choose_biased(5, 50, 100, "hold") as u8,
                    abandon_after,
                    drop_unsent: prop == Prop::C03 && t.flag(10, 100, "drop_unsent"),
                });
            } else {
                let kinds = [
                    PubKind::ReceiveSlice,
                    PubKind::ReceiveU16,
                    PubKind::SendReceiveSlice,
                    PubKind::ReceiveU8,
                    PubKind::ReceiveU32,
                    PubKind::ReceiveU64,
                    PubKind::ReceiveArr16,
                    PubKind::SendReceiveU16,
                    PubKind::SendReceiveU32,
                    PubKind::Send,
                ];
                let mut kind = t.pick(&kinds, "pub_kind");
                let fits = |k: PubKind| match k {
                    PubKind::ReceiveU8 => cap >= 1,
                    PubKind::ReceiveU16 | PubKind::SendReceiveU16 => cap >= 2,
                    PubKind::ReceiveU32 | PubKind::SendReceiveU32 => cap >= 4,
                    PubKind::ReceiveU64 => cap >= 8,
                    PubKind::ReceiveArr16 => cap >= 16,
                    _ => true,
                };
                if !fits(kind) {
                    kind = PubKind::ReceiveSlice;
                }
                let is_read = matches!(
                    kind,
                    PubKind::ReceiveU8 | PubKind::ReceiveU16 | PubKind::ReceiveU32 | PubKind::ReceiveU64 | PubKind::ReceiveArr16 | PubKind::ReceiveSlice
                );
                let cmd = if is_read { t.pick(&READ_KINDS, "cmd") } else { t.pick(&WRITE_KINDS, "cmd") };
                let len = t.choose(cap.min(64) + 1, "len") as u16;
                let wkc = t.pick(&[WkcMode::Exact, WkcMode::Exact, WkcMode::Ignore, WkcMode::Wrong], "wkc_mode");
                let hold = t.choose_biased(6, 40, 100, "hold") as u8;
                let trim = if t.flag(40, 100, "trim") { Some(t.choose(len as usize + 3, "trim_ct") as u16) } else { None };
                ops.push(Op::Public {
                    kind,
                    cmd,
                    len,
                    wkc,
                    hold,
                    trim,
                    abandon_after,
                });
            }
        }
        tasks.push(ops);
    }
    let strategy = match t.choose(4, "strategy") {
        0 | 1 => Strategy::Random {
            stay: t.pick(&[70u32, 50, 85, 95, 98, 30], "stay"),
        },
        2 => {
            let all_sites: Vec<u16> = (1..=41).collect();
            let k = 1 + t.choose(3, "n_hot");
            let mut sites = Vec::new();
            for _ in 0..k {
                sites.push(t.pick(&all_sites, "hot_site"));
            }
            Strategy::SiteBiased { sites, stay_elsewhere: 97 }
        }
        _ => {
            let d = 1 + t.choose(3, "pct_d");
            let mut cps = Vec::new();
            for _ in 0..d {
                cps.push(1 + t.choose(400, "pct_cp") as u64);
            }
            Strategy::Pct { change_points: cps }
        }
    };
    let mut waker_driven = t.flag(70, 100, "waker_driven");
    if matches!(strategy, Strategy::Pct { .. }) {
        // Strict priorities livelock on an eagerly re-polling task.
        waker_driven = true;
    }
    let mut cfg = ScenCfg {
        prop,
        slots,
        frame_len,
        tasks,
        waker_driven,
        pdu_timeout_us: 1_000_000_000_000,
        retry: RetryBehaviour::None,
        strategy,
        timer_fire: (0, 1),
        tx_error: 0,
        tx_partial: 0,
        loss: 0,
        dup: 0,
        early: 0,
        long_resp: 0,
        oversize: 0,
        garbage: 0,
        observed: None,
        lose_all_observed: false,
        tx_priority: false,
        late_poll: false,
        hb: false,
        trans: TransMode::Off,
        max_steps: 30_000,
        realloc_probe: false,
        alter_adp: t.flag(50, 100, "alter_adp"),
        tx_multi_read: false,
    };
    match prop {
        Prop::C01 => {
            cfg.dup = t.pick(&[0u32, 20], "dup");
            cfg.trans = TransMode::Off;
            if crate::tape::gen() >= 2 && t.flag(25, 100, "late_poll") {
                cfg.late_poll = true;
                cfg.pdu_timeout_us = t.pick(&[1000u64, 50, 30_000], "timeout");
                cfg.retry = match t.choose(3, "retry") {
                    0 => RetryBehaviour::None,
                    k => RetryBehaviour::Count(k),
                };
                cfg.timer_fire = t.pick(&[(10u32, 100u32), (30, 100), (3, 100)], "timer_rate");
            }
        }
        Prop::C02 => {
            cfg.hb = true;
            cfg.trans = TransMode::Documented;
            cfg.tx_error = t.pick(&[0u32, 15, 30], "tx_error_rate");
            cfg.tx_partial = t.pick(&[0u32, 15], "tx_partial_rate");
            cfg.dup = t.pick(&[0u32, 25], "dup");
            cfg.tx_multi_read = true;
            if crate::tape::gen() >= 2 {
                // A copy of the response that reaches the receive side before the transmit side has
                // finished sending (it must be refused; the regular copy follows).
                cfg.early = t.pick(&[0u32, 30], "early_copy");
                if c02_abandon {
                    cfg.trans = TransMode::WithDeadlines;
                }
            }
        }
        Prop::C03 => {
            // Run-to-block histories; in a third of the runs (gen >= 2) the drawn pre-emptive
            // strategy is kept, so that expiry and abandonment also land while the transmit or
            // receive side is inside the buffer - "abandoned before completion" has no exception.
            if !(crate::tape::gen() >= 2 && t.flag(33, 100, "c03_preemptive")) {
                cfg.strategy = Strategy::Random { stay: 100 };
                cfg.waker_driven = true;
            }
            cfg.pdu_timeout_us = t.pick(&[1000u64, 50, 30_000], "timeout");
            cfg.retry = match t.choose(4, "retry") {
                0 => RetryBehaviour::None,
                k => RetryBehaviour::Count(k),
            };
            cfg.tx_error = t.pick(&[0u32, 20], "tx_error_rate");
            cfg.tx_partial = t.pick(&[0u32, 20], "tx_partial_rate");
            cfg.loss = t.pick(&[0u32, 30, 60], "loss_rate");
            cfg.dup = t.pick(&[0u32, 25], "dup");
            cfg.realloc_probe = true;
            cfg.trans = TransMode::WithDeadlines;
            if crate::tape::gen() >= 2 {
                cfg.oversize = t.pick(&[0u32, 25], "oversize_copy");
            }
        }
        Prop::C20 => {
            cfg.waker_driven = true;
            cfg.pdu_timeout_us = t.pick(&[1000u64, 50, 30_000], "timeout");
            cfg.retry = match t.choose(4, "retry") {
                0 => RetryBehaviour::None,
                k => RetryBehaviour::Count(k),
            };
            // Simulated time only moves when every party is blocked, so a task whose response was
            // delivered can never legitimately see its deadline.
            cfg.timer_fire = (0, 1);
            cfg.observed = Some(0);
            cfg.lose_all_observed = t.flag(35, 100, "lose_all");
            cfg.loss = if cfg.lose_all_observed { 0 } else { t.pick(&[40u32, 0, 70], "loss_rate") };
            cfg.dup = t.pick(&[0u32, 20], "dup");
            cfg.trans = TransMode::WithDeadlines;
            cfg.tx_multi_read = true;
        }
        Prop::C04 => {
            cfg.pdu_timeout_us = t.pick(&[1000u64, 50, 30_000, 7], "timeout");
            cfg.retry = match t.choose(4, "retry") {
                0 => RetryBehaviour::None,
                k => RetryBehaviour::Count(k),
            };
            cfg.timer_fire = t.pick(&[(5u32, 100u32), (1, 100), (20, 100), (0, 1)], "timer_rate");
            cfg.loss = t.pick(&[30u32, 0, 60], "loss_rate");
            cfg.tx_error = t.pick(&[0u32, 0, 15], "tx_error_rate");
            cfg.tx_partial = t.pick(&[0u32, 15], "tx_partial_rate");
            cfg.dup = t.pick(&[0u32, 20], "dup");
            cfg.early = t.pick(&[0u32, 0, 25], "early_copy");
            cfg.long_resp = t.pick(&[30u32, 0, 60], "long_response");
            cfg.oversize = t.pick(&[0u32, 20], "oversize_copy");
            cfg.trans = TransMode::Off;
            cfg.tx_multi_read = true;
        }
        Prop::C06 => {
            cfg.hb = true;
            cfg.pdu_timeout_us = t.pick(&[1000u64, 50, 30_000, 7], "timeout");
            cfg.retry = match t.choose(5, "retry") {
                0 => RetryBehaviour::None,
                4 => RetryBehaviour::Forever,
                k => RetryBehaviour::Count(k),
            };
            cfg.timer_fire = t.pick(&[(5u32, 100u32), (1, 100), (20, 100), (0, 1)], "timer_rate");
            cfg.observed = Some(0);
            cfg.lose_all_observed = t.flag(40, 100, "lose_all") && cfg.retry != RetryBehaviour::Forever;
            cfg.loss = if cfg.lose_all_observed { 0 } else { t.pick(&[30u32, 0, 60], "loss_rate") };
            cfg.tx_priority = t.flag(40, 100, "tx_priority");
            if cfg.tx_priority {
                // "The transmit task services every sendable frame before the next deadline": time
                // only advances when every party is blocked, i.e. after TX has drained its queue.
                cfg.timer_fire = (0, 1);
                cfg.waker_driven = true;
            }
            cfg.tx_error = t.pick(&[0u32, 0, 15], "tx_error_rate");
            cfg.realloc_probe = true;
            cfg.trans = TransMode::WithDeadlines;
            cfg.tx_multi_read = true;
            if crate::tape::gen() >= 2 {
                cfg.early = t.pick(&[0u32, 0, 25], "early_copy");
                cfg.oversize = t.pick(&[0u32, 0, 20], "oversize_copy");
            }
        }
    }
    cfg
}

/// Execute one run of the scenario described by `cfg`, drawing all further decisions from `tape`.
pub fn run_scenario(cfg: ScenCfg, tape: Tape, nonce: u64) -> RunOutcome {
    clock::reset();
    // Declared first => dropped last.
    let store = storage::make(cfg.slots, cfg.frame_len).expect("storage size on the menu");
    let (tx, rx, pl) = store.split();
    let slots = SlotMap::from_pdu_loop(&pl);
    let timeouts = Timeouts {
        pdu: Duration::from_micros(cfg.pdu_timeout_us),
        ..Timeouts::default()
    };
    let md = Owned::new(MainDevice::new(
        pl,
        timeouts,
        MainDeviceConfig {
            dc_static_sync_iterations: 0,
            retry_behaviour: cfg.retry,
        },
    ));
    // The hook wrappers need a `&PduLoop`; the only one now lives inside the MainDevice.
    let pl_ref: &'static PduLoop<'static> = md_pdu_loop(md.get());

    let n_apps = cfg.tasks.len();
    let mut ctx = Ctx::new(tape, slots);
    ctx.strategy = cfg.strategy.clone();
    ctx.max_steps = cfg.max_steps;
    ctx.trans_mode = cfg.trans;
    ctx.timer_fire = cfg.timer_fire;
    ctx.timer_gate_all_received = cfg.late_poll;
    // "No deadline" configurations use a timeout far beyond this horizon.
    ctx.time_horizon = 100_000_000_000;
    for i in 0..n_apps {
        ctx.add_party(format!("app{}", i), PartyKind::App);
    }
    let tx_id = ctx.add_party("tx", PartyKind::Tx);
    let rx_id = ctx.add_party("rx", PartyKind::Rx);
    if cfg.hb {
        ctx.enable_hb();
    }
    if let Strategy::Pct { .. } = cfg.strategy {
        // Random distinct priorities.
        let n = ctx.parties.len();
        let mut prios: Vec<i64> = (0..n as i64).collect();
        for i in (1..n).rev() {
            let j = ctx.tape.choose(i + 1, "pct_prio");
            prios.swap(i, j);
        }
        for (p, pr) in ctx.parties.iter_mut().zip(prios) {
            p.prio = pr;
        }
    }
    let rx_flag = ctx.parties[rx_id].wake.clone();
    let tx_flag = ctx.parties[tx_id].wake.clone();
    ctx.on_sent_wake = Some(rx_flag.clone());
    ctx.tx_priority = cfg.tx_priority;
    enginef::install(ctx);

    let sh: Sh = Rc::new(RefCell::new(Scen {
        cfg: cfg.clone(),
        nonce,
        wire: Vec::new(),
        reqs: Vec::new(),
        keys: BTreeMap::new(),
        stats: Stats::default(),
        rx_flag: Some(rx_flag.clone()),
        tx_flag: Some(tx_flag.clone()),
        apps_done: 0,
        wire_anomalies: Vec::new(),
        outstanding: 0,
    }));

    let mut fibres: Vec<Fibre> = Vec::new();
    for (ti, ops) in cfg.tasks.iter().enumerate() {
        let sh2 = sh.clone();
        let ops = ops.clone();
        let mdr = md.get();
        let (rxf, txf) = (rx_flag.clone(), tx_flag.clone());
        fibres.push(unsafe {
            Fibre::new(ti, move || {
                for (oi, op) in ops.iter().enumerate() {
                    match op {
                        Op::Public {
                            kind,
                            cmd,
                            len,
                            wkc,
                            hold,
                            trim,
                            abandon_after,
                        } => run_public_op(&sh2, ti, ti, oi, mdr, *kind, *cmd, *len, *wkc, *hold, *trim, *abandon_after),
                        Op::Multi {
                            dgs,
                            iter,
                            hold,
                            abandon_after,
                            drop_unsent,
                        } => run_multi_op(&sh2, ti, ti, oi, pl_ref, dgs, *iter, *hold, *abandon_after, *drop_unsent),
                    }
                    if with(|c| !c.anomalies.is_empty()) {
                        break;
                    }
                }
                sh2.borrow_mut().apps_done += 1;
                rxf.set();
                txf.set();
            })
        });
    }
    {
        let sh2 = sh.clone();
        fibres.push(unsafe { Fibre::new(tx_id, move || tx_body(sh2, tx, tx_id, n_apps)) });
    }
    {
        let sh2 = sh.clone();
        fibres.push(unsafe { Fibre::new(rx_id, move || rx_body(sh2, rx, rx_id, n_apps)) });
    }

    let (end, panic_msg) = enginef::run(&mut fibres, || false);

    // Judge the end of the run.
    if let Some(msg) = &panic_msg {
        with(|c| c.anomaly("panic", msg.clone(), vec![]));
    }
    let clean = with(|c| c.anomalies.is_empty());
    if clean && matches!(end, RunEnd::Quiescent | RunEnd::AllDone) {
        end_of_run_checks(&sh, end);
    }
    let clean = with(|c| c.anomalies.is_empty());

    // Tear down the fibres. Suspended application fibres are unwound (their futures' destructors
    // are part of the history) only when the run is clean; otherwise they are leaked, because a
    // destructor that panics during a forced unwind would abort the process.
    let mut leaked = 0;
    for f in fibres.drain(..) {
        if f.done || (clean && end != RunEnd::Budget) {
            drop(f);
        } else {
            leaked += 1;
            f.discard();
        }
    }

    if clean && cfg.realloc_probe && end != RunEnd::Budget {
        // The probe runs after every party has finished: no concurrency left to judge.
        with(|c| c.hb = None);
        realloc_probe(&sh, md.get(), pl_ref);
    }

    let ctx = enginef::uninstall();
    let s = sh.borrow();
    let faults_fired: u64 = s.stats.faults.values().sum::<u64>() + s.stats.ops_abandoned + ctx.timers_fired_by_choice;
    let nontrivial = match cfg.prop {
        Prop::C03 => s.reqs.len() >= 2 && faults_fired >= 1,
        Prop::C06 => faults_fired >= 1 && ctx.inside_pdu_loop_switches >= 1,
        Prop::C20 => faults_fired >= 1 && s.stats.overlap_max >= 2 && ctx.inside_pdu_loop_switches >= 1,
        Prop::C04 => faults_fired >= 1 && s.stats.frames_tx >= 2,
        _ => s.stats.overlap_max >= 2 && ctx.inside_pdu_loop_switches >= 1,
    };
    let reqs_summary = s
        .reqs
        .iter()
        .enumerate()
        .map(|(i, r)| {
            format!(
                "req{} task{} op{} {} dg status={:?} tx={} delivered={} processed={}",
                i,
                r.task,
                r.op,
                r.dgs.len(),
                r.status,
                r.transmissions.len(),
                r.responses_delivered,
                r.responses_processed
            )
        })
        .collect();
    let out = RunOutcome {
        end,
        anomalies: ctx.anomalies.clone(),
        trace_hash: ctx.trace_hash.0,
        trace: ctx.trace.clone(),
        steps: ctx.steps,
        switches: ctx.switches,
        inside_switches: ctx.inside_pdu_loop_switches,
        sim_time_us: clock::now(),
        stats: s.stats.clone(),
        abstract_states: ctx.abstract_states.iter().copied().collect(),
        probes: ctx.probes.clone(),
        tape: ctx.tape.consumed_values(),
        labels: ctx.tape.labels.clone(),
        nontrivial,
        timers_fired: ctx.timers_fired_by_choice,
        reqs_summary,
    };
    drop(s);
    // Discarded fibres are never resumed, so the storage and MainDevice they point to can go.
    let _ = leaked;
    drop(sh);
    clock::reset();
    drop(md);
    drop(store);
    out
}

fn md_pdu_loop(md: &'static MainDevice<'static>) -> &'static PduLoop<'static> {
    ethercrab::verif::maindevice_pdu_loop(md)
}

/// History clauses evaluated once the run has ended without a step-level anomaly.
fn end_of_run_checks(sh: &Sh, end: RunEnd) {
    let s = sh.borrow();
    let prop = s.cfg.prop;
    for (i, r) in s.reqs.iter().enumerate() {
        match prop {
            Prop::C01 | Prop::C02 => {
                // No deadlines, no loss: every issued request must have completed.
                if r.status == ReqStatus::Issued || r.status == ReqStatus::Building {
                    if r.responses_processed > 0 {
                        with(|c| {
                            c.anomaly(
                                "lost-wakeup",
                                format!(
                                    "req {} (task {}): its response was stored by the receive side but the caller never completed ({:?}, nothing runnable, no timer)",
                                    i, r.task, end
                                ),
                                vec![],
                            )
                        });
                    } else if !r.transmissions.is_empty() {
                        with(|c| {
                            c.anomaly(
                                "request-stuck",
                                format!(
                                    "req {} (task {}): transmitted {} time(s), {} response(s) handed to the receive side, none accepted, caller still waiting at quiescence",
                                    i,
                                    r.task,
                                    r.transmissions.len(),
                                    r.responses_delivered
                                ),
                                vec![],
                            )
                        });
                    } else if r.status == ReqStatus::Issued {
                        with(|c| {
                            c.anomaly(
                                "request-stuck",
                                format!("req {} (task {}): marked sendable but never transmitted although the TX task is idle", i, r.task),
                                vec![],
                            )
                        });
                    }
                }
            }
            Prop::C03 | Prop::C04 => {}
            Prop::C06 | Prop::C20 => {
                if r.status == ReqStatus::Issued {
                    with(|c| {
                        c.anomaly(
                            "deadline-hang",
                            format!("req {} (task {}): still pending at quiescence (no timer armed, nothing runnable)", i, r.task),
                            vec![],
                        )
                    });
                }
            }
        }
    }
}

/// C03 probe: with every handle dropped and nothing more delivered, all N slots can be allocated
/// again (and no more than N).
fn realloc_probe(sh: &Sh, md: &'static MainDevice<'static>, _pl: &'static PduLoop<'static>) {
    let n = sh.borrow().cfg.slots;
    let flag = Flag::new();
    let waker = enginef::waker_of(&flag);
    let mut cx = Context::from_waker(&waker);
    let mut futs = Vec::new();
    let mut failed_at = None;
    for i in 0..n {
        let mut fut = Box::pin(Command::brd(0x0000).ignore_wkc().receive_slice(md, 0));
        match fut.as_mut().poll(&mut cx) {
            Poll::Pending => futs.push(fut),
            Poll::Ready(Err(Error::Pdu(PduError::SwapState))) => {
                failed_at = Some(i);
                break;
            }
            Poll::Ready(other) => {
                let d = format!("{:?}", other.map(|_| ()));
                with(|c| c.anomaly("probe-unexpected", format!("probe request {} resolved at first poll with {}", i, d), vec![]));
                return;
            }
        }
    }
    if let Some(i) = failed_at {
        let states: Vec<String> = (0..n)
            .map(|k| {
                let info = verif::slot_info(verif::maindevice_pdu_loop(md), k);
                format!("{}:{}", k, crate::hb::state_name(info.state))
            })
            .collect();
        with(|c| {
            c.anomaly(
                "slot-leak",
                format!(
                    "after the history, with every handle dropped, only {} of {} slots could be allocated; slot states {:?}",
                    i, n, states
                ),
                vec![],
            )
        });
        return;
    }
    // One more must fail.
    let mut extra = Box::pin(Command::brd(0x0000).ignore_wkc().receive_slice(md, 0));
    match extra.as_mut().poll(&mut cx) {
        Poll::Ready(Err(Error::Pdu(PduError::SwapState))) => {}
        other => {
            let d = format!("{:?}", other.map(|r| r.map(|_| ())));
            let _ = &d;
            with(|c| c.anomaly("over-allocation", format!("request {} was admitted although all {} slots are held: {}", n + 1, n, d), vec![]));
        }
    }
    drop(extra);
    drop(futs);
}
