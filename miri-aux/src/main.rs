//! C02 auxiliary: 2 application threads, a TX thread and an RX thread share one PduStorage.
//! Every slot is used at most once (requests <= slots), see DESIGN §3.9 for why.
//! Miri's data-race detector uses the *actual* memory orderings of the atomics, which the fibre
//! engine (sequentially consistent, declared orderings) cannot see.
use ethercrab::{Command, MainDevice, MainDeviceConfig, PduStorage, Timeouts};
use std::future::Future;
use std::pin::pin;
use std::sync::atomic::{AtomicUsize, Ordering};
use std::sync::mpsc;
use std::sync::Arc;
use std::task::{Context, Poll, Wake, Waker};
use std::thread;
use std::time::Duration;

const SLOTS: usize = 4;
static STORAGE: PduStorage<SLOTS, 64> = PduStorage::new();

struct ThreadWaker(thread::Thread);
impl Wake for ThreadWaker {
    fn wake(self: Arc<Self>) {
        self.0.unpark();
    }
}

fn block_on<F: Future>(f: F) -> F::Output {
    let mut f = pin!(f);
    let waker = Waker::from(Arc::new(ThreadWaker(thread::current())));
    let mut cx = Context::from_waker(&waker);
    loop {
        match f.as_mut().poll(&mut cx) {
            Poll::Ready(v) => return v,
            // A spurious wake-up only causes one more poll; yield so Miri's scheduler moves on.
            Poll::Pending => thread::yield_now(),
        }
    }
}

fn expected(addr: u16, reg: u16, len: usize) -> Vec<u8> {
    (0..len).map(|i| (addr as u8) ^ (reg as u8).wrapping_mul(7) ^ (i as u8).wrapping_mul(31) ^ 0x5a).collect()
}

fn main() {
    let args: Vec<String> = std::env::args().collect();
    let tasks: usize = args.get(1).and_then(|s| s.parse().ok()).unwrap_or(2);
    let per_task: usize = args.get(2).and_then(|s| s.parse().ok()).unwrap_or(2);
    assert!(tasks * per_task <= SLOTS, "every slot may be used at most once in this scenario");
    let total = tasks * per_task;

    let (mut tx, mut rx, pdu_loop) = STORAGE.try_split().expect("split");
    let timeouts = Timeouts { pdu: Duration::from_secs(3600), ..Timeouts::default() };
    let md = MainDevice::new(pdu_loop, timeouts, MainDeviceConfig::default());
    let md = &md;
    let done = AtomicUsize::new(0);
    let done = &done;

    thread::scope(|s| {
        let (net_tx, net_rx) = mpsc::channel::<Vec<u8>>();

        s.spawn(move || {
            let mut sent = 0;
            while sent < total {
                while let Some(frame) = tx.next_sendable_frame() {
                    frame
                        .send_blocking(|bytes| {
                            net_tx.send(bytes.to_vec()).unwrap();
                            Ok(bytes.len())
                        })
                        .expect("send");
                    sent += 1;
                }
                thread::yield_now();
            }
        });

        s.spawn(move || {
            let mut received = 0;
            while received < total {
                let mut f = net_rx.recv().expect("net");
                // Ethernet(14) + EtherCAT header(2) + datagram header(10) + data + wkc(2)
                f[6] = 0x12; // first SubDevice sets the U/L bit of the source MAC
                let addr = u16::from_le_bytes([f[18], f[19]]);
                let reg = u16::from_le_bytes([f[20], f[21]]);
                let len = (u16::from_le_bytes([f[22], f[23]]) & 0x07ff) as usize;
                let data = expected(addr, reg, len);
                f[26..26 + len].copy_from_slice(&data);
                f[26 + len] = 1;
                f[27 + len] = 0;
                // The response may overtake the TX thread's "sent" bookkeeping; a real NIC cannot
                // do that, so retry until the frame is accepted.
                loop {
                    match rx.receive_frame(&f) {
                        Ok(ethercrab::ReceiveAction::Processed) => break,
                        _ => thread::yield_now(),
                    }
                }
                received += 1;
            }
        });

        for t in 0..tasks {
            s.spawn(move || {
                for k in 0..per_task {
                    let addr = 0x1000 + t as u16;
                    let reg = 0x0130 + 2 * k as u16;
                    let len = 1 + ((t * 5 + k * 3) % 8);
                    let got = block_on(Command::fprd(addr, reg).receive_slice(md, len as u16)).expect("request");
                    let want = expected(addr, reg, len);
                    assert_eq!(&*got, &want[..], "task {t} request {k}: wrong bytes");
                    drop(got);
                    done.fetch_add(1, Ordering::Relaxed);
                }
            });
        }
    });
    assert_eq!(done.load(Ordering::Relaxed), total);
    println!("ok tasks={tasks} per_task={per_task}");
}
