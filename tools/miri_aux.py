#!/usr/bin/env python3
"""C02 auxiliary engine (DESIGN §3.9): the std-threads scenario in /verif/miri-aux under Miri's
seeded scheduler and weak-memory-aware data-race detector.

One Miri seed = one exactly repeatable thread schedule (and one choice of weak-memory read values).
Every (scenario, pre-emption rate, seed) is one run in its own process; runs are distributed over
the cores. A run that Miri aborts with "Undefined Behavior: Data race" (or any other UB, panic or
deadlock) is a violation; its replay file names scenario, rate and seed and `./check replay <file>`
re-executes exactly that run.

usage: miri_aux.py quick|thorough        (merges a "miri_aux" section into evidence/C02.json)
       miri_aux.py --build               (compile only; used by MANIFEST.setup_cmd)
       miri_aux.py --replay <file>
exit: 0 clean, 1 violation, 2 harness error
"""
import concurrent.futures as cf, json, os, re, subprocess, sys, time

HERE = os.path.dirname(os.path.abspath(__file__))
CRATE = os.path.join(os.path.dirname(HERE), 'miri-aux')
EVID_DIR = os.environ.get('VERIF_EVIDENCE_DIR', '/verif/evidence')
REPLAY_DIR = os.environ.get('VERIF_REPLAY_DIR', '/verif/replays')

def env_for(flags):
    e = dict(os.environ)
    e['RUSTFLAGS'] = ''            # shipping configuration: no verif cfg, default (std) features
    e['CARGO_NET_OFFLINE'] = 'true'
    e['MIRIFLAGS'] = flags
    e.pop('CARGO_ENCODED_RUSTFLAGS', None)
    return e

def build():
    p = subprocess.run(['cargo', '+nightly', 'miri', 'run', '--offline', '-q', '--', '0', '0'],
                       cwd=CRATE, env=env_for(''), capture_output=True, text=True)
    if p.returncode != 0 or 'ok tasks=0' not in p.stdout:
        sys.stderr.write(p.stdout[-2000:] + p.stderr[-4000:])
        return False
    return True

def one(job):
    scen, rate, seed = job
    flags = '-Zmiri-seed=%d -Zmiri-preemption-rate=%s' % (seed, rate)
    t0 = time.time()
    try:
        p = subprocess.run(['cargo', '+nightly', 'miri', 'run', '--offline', '-q', '--'] + [str(a) for a in scen],
                           cwd=CRATE, env=env_for(flags), capture_output=True, text=True, timeout=900)
        out, err, rc = p.stdout, p.stderr, p.returncode
    except subprocess.TimeoutExpired as ex:
        out, err, rc = '', 'TIMEOUT after 900 s (reported as a hang)', 124
    ok = rc == 0 and out.strip().startswith('ok tasks=')
    return {'scenario': scen, 'preemption_rate': rate, 'miri_seed': seed, 'ok': ok, 'rc': rc,
            'wall_s': round(time.time() - t0, 2), 'stderr': '' if ok else err[-6000:], 'stdout': '' if ok else out[-500:]}

def classify(r):
    m = re.search(r'error: Undefined Behavior: ([^\n]*)', r['stderr'])
    if m:
        kind = 'data-race' if 'Data race' in m.group(1) else 'undefined-behaviour'
        sites = re.findall(r'ethercrab::[A-Za-z0-9_:<>\' ,]+', r['stderr'])
        return kind, m.group(1)[:300], (sites[0] if sites else '?')
    if 'deadlock' in r['stderr']:
        return 'deadlock', 'Miri: all threads blocked', '?'
    if 'panicked' in r['stderr']:
        m = re.search(r'panicked at ([^\n]*)\n([^\n]*)', r['stderr'])
        return 'panic', (m.group(0)[:300] if m else 'panic'), '?'
    if r['rc'] == 124:
        return 'hang', r['stderr'], '?'
    return 'harness', r['stderr'][-300:], '?'

def merge_evidence(section, tier):
    path = os.path.join(EVID_DIR, 'C02.json')
    try:
        ev = json.load(open(path))
    except Exception:
        return
    ev.setdefault('coverage', {})['miri_aux'] = section
    ev['wall_s'] = round(ev.get('wall_s', 0) + section['wall_s'], 2)
    if section['violations']:
        ev.setdefault('violations', [])
        if isinstance(ev['violations'], list):
            ev['violations'] += section['violations']
    json.dump(ev, open(path, 'w'), indent=1)

def main():
    a = sys.argv[1:]
    if not a:
        print(__doc__); return 2
    if a[0] == '--build':
        return 0 if build() else 2
    if a[0] == '--replay':
        rp = json.load(open(a[1]))
        if not build():
            print('HARNESS-ERROR: miri-aux does not build', file=sys.stderr); return 2
        r = one((rp['scenario'], rp['preemption_rate'], rp['miri_seed']))
        if r['ok']:
            print('replay: run completed without violation'); return 0
        kind, detail, site = classify(r)
        print('replay: %s: %s' % (kind, detail))
        print(r['stderr'][-3000:])
        same = kind == rp['violation']['kind']
        print('VIOLATION property=C02 replay=%s' % a[1] if same else 'replay: different outcome than recorded (%s)' % rp['violation']['kind'])
        return 1 if same else 2
    tier = a[0]
    vseed = int(os.environ.get('VERIF_SEED', '1'))
    base = (vseed * 7919) % (1 << 30)
    if tier == 'thorough':
        scenarios, rates, nseeds = [[2, 2], [3, 1], [4, 1], [1, 4], [2, 1]], ['0.01', '0.1', '0.5'], 24
    else:
        scenarios, rates, nseeds = [[2, 2]], ['0.05'], 8
    print('miri-aux: VERIF_SEED=%d miri seeds %d..%d x %d scenarios x %d pre-emption rates' % (vseed, base, base + nseeds - 1, len(scenarios), len(rates)))
    t0 = time.time()
    if not build():
        if tier == 'quick':
            # best effort in the quick tier: the fibre engine's verdict stands on its own
            print('miri-aux: unavailable (nightly toolchain with miri could not build the scenario); skipped in the quick tier')
            merge_evidence({'what': 'miri auxiliary skipped: build unavailable', 'runs': 0, 'wall_s': round(time.time() - t0, 2), 'violations': []}, tier)
            return 0
        print('HARNESS-ERROR: miri-aux does not build (nightly toolchain with miri required)', file=sys.stderr)
        return 2
    jobs = [(s, r, base + k) for s in scenarios for r in rates for k in range(nseeds)]
    with cf.ThreadPoolExecutor(max_workers=min(16, os.cpu_count() or 4)) as ex:
        results = list(ex.map(one, jobs))
    bad = [r for r in results if not r['ok']]
    viol, harness = [], []
    os.makedirs(REPLAY_DIR, exist_ok=True)
    seen = set()
    for r in bad:
        kind, detail, site = classify(r)
        if kind == 'harness':
            harness.append(r); continue
        sig = '%s@%s' % (kind, site)
        if sig in seen:
            continue
        seen.add(sig)
        path = os.path.join(REPLAY_DIR, 'C02-miri-%s-%d.json' % (kind, r['miri_seed']))
        json.dump({'property': 'C02', 'engine': 'miri-aux', 'scenario': r['scenario'], 'preemption_rate': r['preemption_rate'],
                   'miri_seed': r['miri_seed'], 'violation': {'kind': kind, 'signature': sig, 'detail': detail},
                   'miri_report': r['stderr'][-4000:]}, open(path, 'w'), indent=1)
        print('violation: %s [%s] %s (scenario %s, rate %s, miri seed %d)' % (kind, sig, detail, r['scenario'], r['preemption_rate'], r['miri_seed']))
        print('VIOLATION property=C02 replay=%s' % path)
        viol.append({'kind': kind, 'signature': sig, 'detail': detail, 'replay': path})
    wall = round(time.time() - t0, 2)
    section = {'what': 'std-threads scenario (TX thread, RX thread, 1..4 application threads, every slot used at most once) under Miri: seeded scheduler, weak-memory emulation, vector-clock data-race detector over the ACTUAL atomic orderings',
               'runs': len(results), 'clean_runs': len(results) - len(bad), 'scenarios_tasks_x_requests': scenarios,
               'preemption_rates': rates, 'miri_seed_range': [base, base + nseeds - 1], 'wall_s': wall,
               'runs_per_hour': int(len(results) * 3600 / max(wall, 1e-3)),
               'real_components': ['ethercrab (std build, no verif cfg)', 'std threads and mpsc under Miri'],
               'stubbed_components': ['NIC (in-process channel)', 'SubDevice (RX thread fabricates the response)', 'timers (Pending under cfg(miri))'],
               'violations': viol, 'harness_errors': len(harness)}
    merge_evidence(section, tier)
    print('miri-aux: %d runs, %d clean, %d violations, %.1f s' % (len(results), len(results) - len(bad), len(viol), wall))
    if harness:
        print('HARNESS-ERROR: %d miri runs failed outside the program under test:\n%s' % (len(harness), harness[0]['stderr'][-1500:]), file=sys.stderr)
        return 2
    return 1 if viol else 0

sys.exit(main())
