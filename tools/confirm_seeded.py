#!/usr/bin/env python3
"""Confirm a sub-agent's seeded change in the scratch worktree /tmp/wt/confirm (never in /repo):
  1. demo placed on the unchanged tree  -> must PASS
  2. change applied, same demo           -> must FAIL
  3. change applied, demo removed        -> existing suite must pass (replay tests retried: they use
     real time and time out under machine load, also on the unchanged tree)
  4. change applied                      -> compiles with --cfg ethercrab_verif, no default features
usage: confirm_seeded.py <src dir> <mK> <demo dest path rel. to repo> <test args...> [--register <file> <line>]
Writes <src dir>/<mK>.confirm.json.
"""
import json, os, re, subprocess, sys

WT = os.environ.get('CONFIRM_WT', '/tmp/wt/confirm')
ENV = dict(os.environ, RUSTUP_TOOLCHAIN='1.88.0', CARGO_NET_OFFLINE='true')

def sh(cmd, **kw):
    return subprocess.run(cmd, shell=True, capture_output=True, text=True, cwd=WT, env=ENV, **kw)

def clean():
    sh('git checkout -- . && git clean -fdq -e target -e target-verif')

def place(src, dest, register, append=None):
    if append:
        with open(os.path.join(WT, append), 'a') as f:
            f.write('\n' + open(src).read() + '\n')
        return
    os.makedirs(os.path.dirname(os.path.join(WT, dest)), exist_ok=True)
    sh('cp %s %s' % (src, os.path.join(WT, dest)))
    if register:
        with open(os.path.join(WT, register[0]), 'a') as f:
            f.write('\n' + register[1] + '\n')

def run_demo(test_args):
    p = sh('cargo test --offline %s 2>&1' % test_args)
    out = p.stdout
    results = re.findall(r'test result: (\w+)\. (\d+) passed; (\d+) failed', out)
    ran = sum(int(a) + int(b) for _, a, b in results)
    failed = sum(int(b) for _, _, b in results)
    compiled = 'error: could not compile' not in out and 'error[E' not in out
    return {'rc': p.returncode, 'ran': ran, 'failed': failed, 'compiled': compiled, 'tail': out[-1500:]}

def run_suite(diff):
    # a change confined to the ethercrab crate cannot affect the tests of the wire/derive crates
    scope = '--workspace' if 'ethercrab-wire' in open(diff).read() else '-p ethercrab'
    # doc tests are not part of the pinned baseline list and dominate the build time
    p = sh('cargo test %s --lib --tests --no-fail-fast --offline 2>&1' % scope)
    out = p.stdout
    failing = sorted(set(re.findall(r"to rerun pass `([^`]*)`", out)))
    still = []
    for t in failing:
        ok = False
        for _ in range(6):
            r = sh('cargo test --offline %s 2>&1' % t)
            if r.returncode == 0:
                ok = True
                break
        if not ok:
            still.append(t)
    return {'first_run_failing_targets': failing, 'failing_after_retries': still}

def main():
    a = sys.argv[1:]
    register = None
    append = None
    if '--append' in a:
        i = a.index('--append')
        append = a[i + 1]
        a = a[:i] + a[i + 2:]
    if '--register' in a:
        i = a.index('--register')
        register = (a[i + 1], a[i + 2])
        a = a[:i]
    src, m, dest = a[0], a[1], a[2]
    test_args = ' '.join(a[3:])
    res = {'mutant': m, 'demo_dest': dest, 'test_args': test_args}
    clean()
    place('%s/%s.demo.rs' % (src, m), dest, register, append)
    res['demo_on_head'] = run_demo(test_args)
    ap = sh('git apply %s/%s.diff' % (src, m))
    res['applies'] = ap.returncode == 0
    res['demo_with_change'] = run_demo(test_args)
    clean()
    sh('git apply %s/%s.diff' % (src, m))
    res['suite_with_change'] = run_suite('%s/%s.diff' % (src, m))
    c = sh("RUSTFLAGS='--cfg ethercrab_verif' cargo check --no-default-features --offline --target-dir %s/target-verif 2>&1" % WT)
    res['verif_cfg_compiles'] = c.returncode == 0
    clean()
    h, w = res['demo_on_head'], res['demo_with_change']
    # the always-failing baseline test is tolerated
    tolerated = {'-p ethercrab --test replay-ek1914-no-complete-access'}
    res['confirmed'] = bool(res['applies'] and h['compiled'] and h['ran'] > 0 and h['failed'] == 0 and h['rc'] == 0
                            and w['compiled'] and w['failed'] > 0 and res['verif_cfg_compiles']
                            and not (set(res['suite_with_change']['failing_after_retries']) - tolerated))
    json.dump(res, open('%s/%s.confirm.json' % (src, m), 'w'), indent=1)
    print(m, 'CONFIRMED' if res['confirmed'] else 'NOT CONFIRMED', json.dumps({k: (v if not isinstance(v, dict) else {kk: vv for kk, vv in v.items() if kk != 'tail'}) for k, v in res.items()}))
    if not res['confirmed']:
        print('--- head tail:\n', h['tail'][-800:], '\n--- with change tail:\n', w['tail'][-800:])

main()
