#!/bin/bash
# Run every claimed check's quick tier from /verif against /repo and report exit codes.
cd /verif
for p in C01 C02 C03 C04 C05 C06 C07 C08 C09 C10 C11 C12 C13 C14 C15 C16 C17 C18 C20; do
  s=$(date +%s); ./check $p quick > /tmp/final.$p.log 2>&1; rc=$?; e=$(date +%s)
  echo "$p exit=$rc $((e-s))s $(grep -cE '^VIOLATION' /tmp/final.$p.log) violations $(grep -cE '^KNOWN-FINDING' /tmp/final.$p.log) known"
done
