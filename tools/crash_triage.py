#!/usr/bin/env python3
"""The simulator process died from a signal (simulated code corrupted memory). Read the crash
breadcrumbs every worker left (the run it was about to execute), replay those runs one at a time in
fresh processes, and report the one that crashes again (or reports a violation once it runs alone)
as the violation, with a replay file that `./check replay` re-executes.
usage: crash_triage.py <binary> <property> <tier> <crumb dir> <exit code>"""
import glob, json, os, subprocess, sys

def main():
    binary, prop, tier, crumbs, rc = sys.argv[1:6]
    replay_dir = os.environ.get('VERIF_REPLAY_DIR', '/verif/replays')
    os.makedirs(replay_dir, exist_ok=True)
    sig = int(rc) - 128 if int(rc) >= 128 else int(rc)
    cands = []
    for f in sorted(glob.glob(crumbs + '/crumb.*')):
        parts = open(f, errors='replace').read().split()
        if len(parts) >= 6 and parts[0] == prop:
            c = (parts[1], parts[2], int(parts[3]), int(parts[4]), int(parts[5]))
            if c not in cands:
                cands.append(c)
    print('crash: the simulator process died with signal %d during %s %s; %d candidate runs from the crash breadcrumbs' % (sig, prop, tier, len(cands)))
    profile = 'checked' if '/checked/' in binary else 'release'
    for check, ctier, run, rs, nonce in cands:
        try:
            p = subprocess.run([binary, 'run-one', prop, check, ctier, str(rs), str(nonce)], capture_output=True, text=True, timeout=300)
            r, out = p.returncode, p.stdout
        except subprocess.TimeoutExpired:
            r, out = 124, ''
        died = r < 0 or r >= 128
        if died or r == 1:
            kind = 'simulator-crash' if died else 'violation-after-crash'
            detail = ('run %d of %s dies with signal %d when executed alone: code under simulation corrupted memory' % (run, check, -r if r < 0 else r - 128)) if died else out.strip()[-600:]
            path = '%s/%s-crash-%d.json' % (replay_dir, prop, rs)
            json.dump({'property': prop, 'check': check, 'tier': ctier, 'seed': int(os.environ.get('VERIF_SEED', '1')), 'run': run, 'run_seed': rs, 'nonce': nonce,
                       'tape': None, 'gen': 2, 'build_profile': profile, 'minimised': False,
                       'violation': {'clause': 'crash', 'signature': kind, 'detail': detail}, 'trace_hash': ''}, open(path, 'w'), indent=1)
            print('violation: crash [%s] %s' % (kind, detail))
            print('VIOLATION property=%s replay=%s' % (prop, path))
            return 1
    path = '%s/%s-crash-batch.json' % (replay_dir, prop)
    json.dump({'property': prop, 'engine': 'crash-batch', 'tier': tier, 'seed': int(os.environ.get('VERIF_SEED', '1')), 'build_profile': profile,
               'violation': {'clause': 'crash', 'signature': 'simulator-crash-batch', 'detail': 'the batch dies with signal %d; no single candidate run reproduces it alone (memory corrupted by an earlier run)' % sig}}, open(path, 'w'), indent=1)
    print('violation: crash [simulator-crash-batch] the %s %s batch dies with signal %d; none of the %d candidate runs dies when executed alone' % (prop, tier, sig, len(cands)))
    print('VIOLATION property=%s replay=%s' % (prop, path))
    return 1

sys.exit(main())
