#!/usr/bin/env python3
"""Import what a mutant sub-agent left in /tmp/mut/<Cxx>.out into /verif/seeded/<Cxx>-m<k>/."""
import json, os, shutil, sys
for prop in sys.argv[1:]:
    src = '/tmp/mut/%s.out' % prop
    meta = json.load(open(src + '/meta.json'))
    for m in meta['mutants']:
        k = m['file'].replace('.diff', '')
        dst = '/verif/seeded/%s-%s' % (prop, k)
        os.makedirs(dst, exist_ok=True)
        shutil.copy(src + '/' + m['file'], dst + '/patch.diff')
        for ext in ('demo.md', 'demo.rs'):
            f = '%s/%s.%s' % (src, k, ext)
            if os.path.exists(f):
                shutil.copy(f, dst + '/' + ext)
        mm = dict(m)
        mm['property'] = prop
        mm['origin'] = 'sub-agent given only the property text and a scratch worktree of /repo at 353bf747'
        json.dump(mm, open(dst + '/meta.json', 'w'), indent=1)
        print('imported', dst)
