#!/usr/bin/env python3
"""Import what a sub-agent left in <src>/<Cxx>.out into /verif/seeded/<Cxx>-m<k+offset>/.
usage: import_seeded.py [--src /tmp/mut] [--offset 0] [--origin-head <sha>] Cxx ..."""
import json, os, shutil, sys
a = sys.argv[1:]
src_root, offset, head = '/tmp/mut', 0, '353bf747'
while a and a[0].startswith('--'):
    k = a.pop(0)
    v = a.pop(0)
    if k == '--src': src_root = v
    elif k == '--offset': offset = int(v)
    elif k == '--origin-head': head = v
for prop in a:
    src = '%s/%s.out' % (src_root, prop)
    meta = json.load(open(src + '/meta.json'))
    for m in meta['mutants']:
        k = m['file'].replace('.diff', '')
        n = int(k[1:]) + offset
        dst = '/verif/seeded/%s-m%d' % (prop, n)
        os.makedirs(dst, exist_ok=True)
        shutil.copy(src + '/' + m['file'], dst + '/patch.diff')
        for ext in ('demo.md', 'demo.rs'):
            f = '%s/%s.%s' % (src, k, ext)
            if os.path.exists(f):
                shutil.copy(f, dst + '/' + ext)
        if os.path.exists('%s/%s.confirm.json' % (src, k)):
            shutil.copy('%s/%s.confirm.json' % (src, k), dst + '/confirm.json')
        mm = dict(m)
        mm['file'] = 'patch.diff'
        mm['property'] = prop
        mm['origin'] = 'sub-agent given only the property text (and one-line summaries of the changes earlier rounds had produced, to avoid duplicates) and a scratch worktree of /repo at %s' % head
        json.dump(mm, open(dst + '/meta.json', 'w'), indent=1)
        print('imported', dst)
