#!/usr/bin/env python3
"""Regenerates /verif/MANIFEST.json from the table below (single source of truth)."""
import json, subprocess

CLAIMED = {
 "C01": dict(
   text="Seeded exploration of fibre-level interleavings of 1..3 application tasks, the TX task and the RX task around the real PDU loop (pre-emption at every instrumented shared-state access), against a scripted wire that returns unique, attributable bytes per datagram; every completed call is compared byte-for-byte with what the wire returned for that request, views are re-read after being held and after trim_front, and a request whose response was delivered must complete (lost wake-up = quiescence with a waiting caller). A quarter of the runs use finite deadlines that may only expire once every outstanding response has been received (late poll): the caller must still get its data. Sampling, not enumeration: a clean batch is evidence, not proof.",
   note="Trusts: the cfg(ethercrab_verif) event sites cover every shared-state access of the PDU loop; fibres are sequentially consistent; the harness' own frame codec. Assumes < 256 indices outstanding; outside the late-poll runs there is no deadline expiry (timeouts are beyond the time horizon).",
   technique="deterministic simulation: seeded fibre scheduler (random/PCT/site-biased) + scripted wire, history oracle on attributable responses", section="DESIGN.md §4 C01"),
 "C02": dict(
   text="Same scenario family with failed/partial sends, duplicate responses, premature copies of the response (before the transmit side finished) and, in a third of the runs, owners that drop their request at any instant; decided by a happens-before race detector (vector clocks fed by the declared atomic orderings) over every buffer/bookkeeping access event of each slot, plus a slot-transition monitor restricted to the documented lifecycle and its legitimate actors. Auxiliary batch (reported separately in the evidence under coverage.miri_aux): a std-threads scenario (TX, RX, 1..4 application threads, each slot used once) under Miri's seeded scheduler and weak-memory-aware race detector, which sees the actual memory orderings of the atomics.",
   note="Trusts the completeness of the BufAccess/Atomic instrumentation; SC execution in the fibre engine (there weak-memory reorderings are only visible through the declared orderings; the Miri batch covers the actual orderings but only histories without slot reuse and without timers; in the quick tier it is skipped if the nightly/miri toolchain cannot build it); a failed compare-exchange is treated as an acquire load (the property speaks about instants, see DESIGN §7).",
   technique="deterministic simulation: seeded fibre scheduler + vector-clock race detector + lifecycle monitor; auxiliary seeded-schedule runs under Miri (weak-memory data-race detector)", section="DESIGN.md §4 C02, §3.9"),
 "C03": dict(
   text="Seeded histories (run-to-block granularity; a third of the runs with the pre-emptive scheduler so that expiry and abandonment also land while TX/RX is inside the buffer) over 1..8 slots mixing round trips, validation failures, send errors, partial sends, loss, duplicates, deadline expiry with retries, future drops, forged replies slightly too long for the slot and frames dropped unsent, followed by the public-API reallocation probe: all N slots allocatable again, the (N+1)-th refused.",
   note="The probe uses public API only; the lifecycle monitor runs alongside.",
   technique="deterministic simulation: seeded fault/operation histories + drain-and-reallocate probe", section="DESIGN.md §4 C03"),
 "C06": dict(
   text="Virtual-clock simulation: deadline expiry is a schedulable action at every scheduling point (so it lands inside the send call, inside the copy, before the first poll...), futures are dropped at any poll boundary, transmissions are lost in every pattern; oracles: all-lost requests resolve to a PDU timeout, never earlier than (1+retries)*T, with exactly 1+retries byte-identical transmissions when TX drains its queue before each deadline; a response already received wins; under arbitrary expiry/abandonment no buffer race, no illegal lifecycle edge, other requests exact, no panic, and the reallocation probe succeeds.",
   note="Timers are real embassy_time::Timer objects over the harness' time driver (ethercrab built with default-features = false). RetryBehaviour::Forever is observed for a bounded number of steps only.",
   technique="deterministic simulation: virtual clock + seeded fibre scheduler + loss/abandon injection, lifecycle/race monitors and count/timing oracles", section="DESIGN.md §4 C06"),
}

CLAIMED["C04"] = dict(
   text="Two parts, reported separately in the evidence. (1) Generated push programs through the cfg-gated wrappers (all 11 command kinds, lengths around the remaining capacity, overrides below/equal/above, fill-the-rest pushes of 0..2*capacity) into frames of every menu size 28..1514, built in slots dirtied by a previous life (abandoned build, abandoned in flight, full response of ones): accept/refuse decisions, (consumed, handle) reports and every transmitted byte are compared with an independent encoder. (2) A fibre-engine batch (wire-monitor-under-faults) under deadlines, retries, loss, send errors, partial sends, duplicates, premature and oversize copies, responses longer than their requests and abandonment at any instant: every frame the send closure is given is decoded independently, compared with what its request asked for, re-read while the driver holds it, and retransmissions are compared with the first transmission. (3) The wire monitor also applies the per-frame clauses to every frame transmitted in the scenarios of the other checks.",
   note="The independent encoder/decoder in sim/src/wire.rs and c_seq.rs is the trusted base; frame sizes above 1514 are not generated.",
   technique="deterministic simulation: seeded operation histories on the real PDU loop (slot reuse after responses/abandonment) + independent encoder as reference model", section="DESIGN.md §4 C04")
CLAIMED["C05"] = dict(
   text="1..4 slots are driven (sequentially, with the TX side held inside its send closure where needed) into drawn combinations of all nine reachable states; 8..32 frames per configuration from 16 generator classes (random, structure-aware mutants of real responses: every truncation, every header field, padded, oversized, echoes, bit flips) are fed to receive_frame under catch_unwind with a byte-exact snapshot of every slot before and after: reject/ignore => nothing changed anywhere; accept => exactly one slot, it was Sent with that first index, now RxDone holding exactly the payload.",
   note="Snapshots are taken through the read-only cfg-gated inspector; at most one slot is in Sending per configuration.",
   technique="deterministic simulation: seeded slot-state histories + hostile frame injection with whole-storage snapshot oracle", section="DESIGN.md §4 C05")

CLAIMED["C09"] = dict(
   text="Seeded networks (chains, and trees in a third of the runs) of 0..capacity+2 simulated ESCs (capacity 4/8/16) that check their mailbox sync manager set-up on the way to PRE-OP, with generated EEPROMs, stale station addresses (duplicates included), mailboxes, DC flags, 4/8 byte SII, drawn group assignment, run through the real MainDevice::init; oracle: count, station address register of every ring position, per-device identity/name/alias/DC support against the description of the device at that position, exactly-one-group membership, PRE-OP everywhere, Capacity error above capacity, empty groups for an empty network; a second batch injects SII busy polls and delayed PRE-OP/mailbox replies.",
   note="Trusts the segment reference model (sim/src/esc) and the EEPROM image generator; open ports are read through a cfg-gated accessor and compared with the link state each device reports.",
   technique="deterministic simulation: real init against an executable EtherCAT segment reference model under virtual time, seeded network configurations and device-side lag injection", section="DESIGN.md §4 C09")
CLAIMED["C12"] = dict(
   text="Generated well-formed EEPROM images (random descriptions incl. NUL/non-ASCII strings, categories in any order with unknown ones interleaved, 4 Kbit..4 Mbit) served through the simulated SII register protocol (4/8 byte data window, busy polls); 20..50 (start word, length) ranges per device incl. odd lengths and the last words, typed reads, eeprom_size, description, and (via init) name/identity; every returned byte and count is compared with the image; drawn sequences of read/skip/read_byte on ONE range (guarded hook) are compared with a position model; the crate-internal parsed view (sync managers, FMMU usage, FMMU_EX mapping, PDOs with bit sums, mailbox, general, identity, alias, size) is compared field by field with the description the image was built from.",
   note="Well-formed = reserved bits zero, enumerations within defined values. Word addresses are 16 bit, so only the first 128 KiB of larger images are reachable. Parsed values are additionally checked through the registers they are programmed into in C08.",
   technique="deterministic simulation: real EEPROM stack over a simulated SII state machine with device-side lag, seeded images and ranges, byte-exact oracle", section="DESIGN.md §4 C12")
CLAIMED["C13"] = dict(
   text="Hostile EEPROM images (blank, random, structured-then-mutated: hostile category lengths, no end marker, size word >= 511, bit flips, index/count extremes, truncation, maximal PDO bit sums, category chains that leave the address space exactly at its end and lead back through the header area, FMMU_EX categories of 17..37 entries) on a simulated device; init, description, eeprom_size, an extreme range read and into_op run under catch_unwind with a step budget and a per-word SII read counter; the batch runs twice, in a release build and in a build with overflow checks and debug assertions.",
   note="Budget: 3e6 executor steps per operation; a single SII word read more than 70000 times counts as a loop.",
   technique="deterministic simulation with device-side fault injection (sii_garbage) under two arithmetic profiles; panic/step/loop monitors", section="DESIGN.md §4 C13")
CLAIMED["C14"] = dict(
   text="set_alias_address over random header words and alias values with 0..25 injected SII command errors, busy polls or a permanently busy device, and typed generic writes of 1/2/4/8 bytes and 3/5/7-byte range writes (guarded hook) at drawn word addresses; images with stale checksum words, requests for the alias the device already holds, and a retried request after an attempt that stored only the alias word; oracle: the EEPROM array diff equals {alias word, CRC word} with the CRC-8 recomputed independently, alias reported, bounded write commands, busy => timeout, generic writes store exactly the bytes (odd tail zero padded).",
   note="The model stores a word when the write command executes; command-error and busy bits follow the ESC datasheet.",
   technique="deterministic simulation: real EEPROM write path over a simulated SII with injected command errors/busy, array-diff oracle", section="DESIGN.md §4 C14")

CLAIMED["C07"] = dict(
   text="0..8 simulated devices with drawn PDO sets are brought to OP through the real init/into_op (DC variant through into_pre_op_pdi + configure_dc_sync), with frame sizes from the smallest a session works with up to 1514; 1..5 cycles of tx_rx / tx_rx_sync_system_time / tx_rx_dc with fresh outputs and inputs; in a fifth of the cycles one member leaves its state check unanswered (its entry must read no-state, in place). Oracle over the recorded wire log and the model: LRW datagrams tile the group window without gap/overlap and fit the frame size, exactly one leading FRMW to the reference clock whose answer is the reported time, inputs()/outputs() against the devices' memory and what was written, working counter sum, state list in group order, frame count against an independent greedy packer, termination within the step budget (lock contention is reported as a deadlock, not spun on).",
   note="MAX_PDI = 4096, MAX_SUBDEVICES = 16; fault-free wire, devices fault-free except for the unanswered state check; frames below 44 bytes cannot complete init and are not drawn.",
   technique="deterministic simulation: real cycle code against the segment reference model (FMMU/SM/logical memory) under virtual time, seeded configurations, wire-log oracle", section="DESIGN.md §4 C07")
CLAIMED["C08"] = dict(
   text="1..6 simulated devices with random PDO sets (1..3 process data sync managers per direction, adjacent or not, CoE or EEPROM configuration path, FMMU_EX, oversampling) in 1..3 groups whose declared image capacities are 4096 bytes or, in a quarter of the runs, 4..24 bytes (a layout beyond the capacity must be refused on both routes to SAFE-OP); oversampling tables that name first and non-first PDOs; SII sync managers with and without usage byte; structural oracle (window lengths from the description, disjointness, inputs before outputs, SM registers, every sync manager byte mapped by an FMMU of the right direction, global logical disjointness) and behavioural oracle (distinct pattern per device, one cycle, each device's output RAM holds its own pattern, no other RAM byte of any device changed, inputs() shows the device's own input RAM); devices refuse SAFE-OP on a sync manager configuration other than their own. Two open known findings (FMMU choice for non-adjacent sync managers on the CoE path; FMMU chosen by sync manager index on the EEPROM path) are reported as KNOWN-FINDING and quarantined in 60% of runs.",
   note="A device implements exactly the FMMUs its EEPROM lists in tight configurations; bit-granular FMMUs are modelled but never programmed by ethercrab.",
   technique="deterministic simulation: real configuration + cycle code against the segment reference model, seeded device populations, structural + behavioural memory oracle", section="DESIGN.md §4 C08")

CLAIMED["C10"] = dict(
   text="1..16 simulated devices in 1..3 groups; one of six transition sequences (into_safe_op, into_op, request_into_op, into_init, OP->SAFE-OP, SAFE-OP->PRE-OP) on one group while each member's AL state machine is scripted for the faulted state, optionally with the response of one status-poll frame lost on the wire (accept after k polls, refuse with a status code, stall forever, reach the state and fall back later), with frame sizes small enough that a status round needs several frames. Oracle: Ok => every member's last reported AL status was the claimed state; a refusing/stalling member => Err within the transition timeout in simulated time; AL control writes reached exactly the members; after into_op, cycles with scripted reported states (incl. devices that stop answering) compare the state list and all_op/is_in_state/group_in_single_state with independent recomputations.",
   note="Refusal = old state + error bit + status code; 'requested state and error bit at once' is not generated. BOOT/undefined values constrain the summaries one way only (documented ambiguity of the bit-set).",
   technique="deterministic simulation with device-side fault injection (dev_lag, dev_refuse, stall, dev_fallback, dropout) under a virtual clock; reference recomputation of summaries", section="DESIGN.md §4 C10")
CLAIMED["C11"] = dict(
   category="fault_enumeration",
   text="For each configuration and each public data-returning entry point (receive, receive_slice, send_receive, send_receive_slice, register_read/write, with_wkc 0..3 against present and absent addresses, BRD with wkc n, status, eeprom_read_raw, eeprom_read, eeprom_size, sdo_read, sdo_write, sdo_read_array, sdo_write_array, SDO information services, aprd/apwr, eeprom_write_dangerously, description, into_safe_op, into_op, request_into_op) the healthy run counts the datagrams the target device services; the operation is then repeated once per position with the device silent from there on, once per position with only that datagram unanswered, and with the working counter increment replaced by 0/2/3/0xffff. Never Ok for a silent device; single-datagram entry points give exactly WorkingCounter{expected, received} with the wire's values; 'only datagram j unanswered' may fail or must return exactly the healthy result.",
   note="Positions are enumerated exhaustively per (configuration, entry point); configurations are seeded samples. WrappedWrite::send is outside the quantifier. In group transitions an unanswered state request (FPWR to AL control) must surface as WorkingCounter{1,0}; other member datagrams may also end in a transition timeout (status polls opt out of the check).",
   technique="deterministic simulation: exhaustive enumeration of device drop-out / unanswered-datagram positions and counter tampering per operation on the segment reference model", section="DESIGN.md §4 C11")

CLAIMED["C15"] = dict(
   text="A simulated CoE server (object dictionary, expedited/normal/segmented upload with drawn segment sizes and the <7 byte padding rule, expedited download, complete access, aborts, emergencies, foreign-object replies) behind mailbox sync managers of drawn sizes 16..1024; 2..7 operations per run: reads of objects of 0..520 bytes into exactly fitting and roomy destinations under every upload mode (initiate response with and without a first fragment, optional stale out-mailbox content), writes, array helpers, abort codes, emergency, foreign object, object larger than destination; oracle: returned bytes == object bytes, dictionary after writes, sub-index order of array helpers, exact error variants and payloads, mailbox counter cycling 1..7.",
   note="Segment responses use command specifier 0 as ETG.1000.6/CiA 301 prescribe; writes above four bytes are documented as unsupported and not generated.",
   technique="deterministic simulation: real CoE client against an executable CoE server reference model with seeded policies/sizes and device-side fault injection (sdo_abort, mbx_emergency, mbx_stale)", section="DESIGN.md §4 C15")
CLAIMED["C16"] = dict(
   text="Every SDO / SDO-information entry point is run while the next 1..3 mailbox replies of the simulated device are mutated: random bytes, each header field byte set to a drawn value, mailbox length 0..0xffff, truncation, bit flips, emergency service, every command specifier, and devices that announce more segments/fragments forever (with and without data); under catch_unwind with a step budget, in a release build and in a build with overflow checks and debug assertions.",
   note="'Never reads outside the response' is covered through the view clauses of C01 (trim_front/len) and Rust's bounds checks (an out-of-range index is a panic, which this check reports); no canary instrumentation is used.",
   technique="deterministic simulation with device-side fault injection (mbx_garbage, endless fragments) under two arithmetic profiles; panic/step monitors", section="DESIGN.md §4 C16")

CLAIMED["C17"] = dict(
   text="A physical DC model (tree of devices, per-link cable delays, per-device forwarding delays, local clocks with arbitrary offsets, 32/64 bit) lets the latching broadcast stamp every open port along the real path of the frame; 1..24 devices in chains, forks, crosses and nested junctions, mixed DC support, clock wrap forced to fall inside the frame's trip in a third of the runs, plus scripted impossible link reports. Oracle: reconstructed parent of every device == true parent (through a cfg-gated accessor), programmed delay non-decreasing in processing order, == true one-way delay on pure chains with equal delays (1 ns per hop), offset register == master time handed to init - latched receive time, static sync FRMW addresses the first DC device, impossible reports => error not panic.",
   note="In the main class junction devices are DC capable (a junction without port times makes what lies behind its ports unmeasurable for any master); a separate class has junctions without DC support and keeps the tree/ports/offset/reference/monotonicity clauses only. On trees and with unequal delays exactness of the delay value is not required (the statement requires it on pure chains only); exact/inexact counts on trees are reported as probes.",
   technique="deterministic simulation: real topology/DC code against a physical propagation model of the segment with seeded trees, delays and clock offsets", section="DESIGN.md §4 C17")
CLAIMED["C18"] = dict(
   text="1..8 devices with every mix of DC support and DcSync setting; periods, start delays and shifts from boundary sets up to and beyond 32 bit nanoseconds; the reference clock of the model is set to boundary and random 64 bit values for configure_dc_sync and for every tx_rx_dc cycle. Oracle: only DC capable devices that asked receive DC sync register writes; SYNC0 start is a multiple of the period in (ref+delay-period, ref+delay]; cycle registers and activation byte per mode; out-of-range period/delay and a missing reference clock give errors; CycleInfo == (ref mod period, period - offset + shift) for every value; run in a release build and in a build with overflow checks.",
   note="The start-time interval is only evaluated when reference time + start delay fits 64 bits (otherwise an error is acceptable).",
   technique="deterministic simulation: real DC configuration and cycle code against the segment model with a harness-controlled reference clock, seeded boundary inputs, two arithmetic profiles", section="DESIGN.md §4 C18")

CLAIMED["C20"] = dict(
   text="2..8 devices in 2..3 groups brought to OP through the real init/into_op on one MainDevice; 2..4 tasks (process data cycles of different groups, register writes/reads, EEPROM reads, SDO reads/writes on different SubDevices) polled in an order drawn at every await point, per-frame latency 0..500 us so that responses overtake each other, 2..32 frame slots (just enough for one frame per task upwards), frame sizes 192..1514. Oracle: each task's whole result sequence (values, working counters, process images, state lists) equals the sequence of the same task run alone on a clone of the post-initialisation segment, and contains no error.",
   note="First batch: await-point granularity, no faults. Second batch (fibre engine, evidence check name concurrent-tasks-subpoll): register-level requests of 2..3 tasks pre-empted at every instrumented shared-state access of the PDU loop while task 0 disturbs (its responses are lost, its requests time out, are retried or dropped); the other tasks must complete exactly and never fail; time only advances when every party is blocked.",
   technique="deterministic simulation: cooperative tasks on a seeded scheduler, randomised wire latency, sequential oracle on a cloned segment model; plus seeded fibre scheduler over the PDU loop with one fault-injected disturbing task", section="DESIGN.md §4 C20")

NA = {
 "C19": "pure function of its input (a proc-macro and the code it generates): no schedule, clock, fault, I/O or second party for a simulator to control; input generation alone is not simulation (DESIGN.md §4 C19)",
}

def main():
    props = [json.loads(l) for l in open('/verif/properties.jsonl')]
    checks, na = [], []
    for p in props:
        pid = p['id']
        if pid in CLAIMED:
            c = CLAIMED[pid]
            checks.append({
                "property_id": pid,
                "quick_cmd": f"./check {pid} quick",
                "thorough_cmd": f"./check {pid} thorough",
                "evidence_file": f"/verif/evidence/{pid}.json",
                "replay_cmd_template": "./check replay {path}",
                "engine": "ecsim",
                "level_claimed": {"category": c.get("category", "exploration"), "text": c["text"], "design_ref": c["section"]},
                "level_note": c["note"],
                "technique": c["technique"],
            })
        elif pid in NA:
            na.append({"property_id": pid, "reason": NA[pid]})
        else:
            na.append({"property_id": pid, "reason": "check still under construction in this session; not claimed yet"})
    commits = subprocess.run(["git", "-C", "/repo", "log", "--format=%h %s", "b58eb77f..HEAD"], capture_output=True, text=True).stdout.strip().split("\n")
    hook_commits = [c.split()[0] for c in commits if "verif hooks" in c]
    m = {
        "version": 1,
        "setup_cmd": "cd /verif && CARGO_NET_OFFLINE=true cargo build --release --offline -p ecsim && (python3 tools/miri_aux.py --build || echo 'miri-aux not built (C02 auxiliary batch will be skipped in the quick tier)')",
        "hooks": {
            "guard": "--cfg ethercrab_verif",
            "enable": "RUSTFLAGS='--cfg ethercrab_verif' from /verif/.cargo/config.toml; the harness depends on /repo by path with default-features = false",
            "baseline_off_cmd": "cd /repo && RUSTUP_TOOLCHAIN=1.88.0 cargo test --workspace --no-fail-fast --offline",
            "source_commits": hook_commits,
            "add_only": True,
        },
        "engines": [{"name": "ecsim", "path": "/verif/sim", "serves_properties": sorted(CLAIMED.keys()),
                     "kind_free_text": "deterministic simulator (plus /verif/miri-aux: C02's auxiliary std-threads scenario under Miri's seeded scheduler): seeded fibre scheduler over cfg-gated yield points (engine F) and await-level executor with an EtherCAT segment reference model (engine S); virtual clock (the harness is the embassy time driver); fault-injecting wire; one choice tape per run, ddmin minimisation, replay files"}],
        "checks": checks,
        "not_applicable": na,
        "notes": "Replay: ./check replay <file>. Known findings: /verif/known_findings.jsonl (fixed entries suppress nothing). Exit 2 = harness error.",
    }
    json.dump(m, open('/verif/MANIFEST.json', 'w'), indent=1)
    print("claimed:", sorted(CLAIMED.keys()))

if __name__ == "__main__":
    main()
