#!/usr/bin/env python3
"""Determinism self-test: every check is run three times on the same seeds (16 workers, 3 workers,
16 workers again, separate processes) and the per-batch fingerprints (order-independent digest of
run index, trace hash, consumed tape, step count, simulated time and violation signature of every
run) must be identical. Exit 0 = deterministic, 2 = harness error (nondeterminism)."""
import json, os, subprocess, sys, tempfile, shutil, time

BIN = '/verif/target/release/ecsim'
RUNS = {'C01': 20000, 'C02': 20000, 'C03': 20000, 'C06': 20000, 'C04': 20000, 'C05': 20000,
        'C07': 1500, 'C08': 1500, 'C09': 1500, 'C10': 1500, 'C11': 150, 'C12': 3000, 'C13': 3000,
        'C14': 3000, 'C15': 5000, 'C16': 3000, 'C17': 5000, 'C18': 5000, 'C20': 3000}

def fingerprints(prop, workers, seed, evdir):
    env = dict(os.environ, VERIF_RUNS=str(RUNS[prop]), VERIF_WORKERS=str(workers), VERIF_SEED=str(seed),
               VERIF_FINGERPRINT='1', VERIF_EVIDENCE_DIR=evdir, VERIF_SELFTEST='1')
    p = subprocess.run([BIN, prop, 'quick'], env=env, capture_output=True, text=True)
    fps = [l for l in p.stdout.splitlines() if l.startswith('fingerprint ')]
    return p.returncode, fps

def main():
    props = sys.argv[1:] or sorted(RUNS)
    seeds = [int(os.environ.get('VERIF_SEED', '1')), 7777]
    evdir = tempfile.mkdtemp(prefix='ecsim-selftest-')
    report, bad = [], 0
    t0 = time.time()
    try:
        for prop in props:
            for seed in seeds:
                res = [fingerprints(prop, w, seed, evdir) for w in (16, 3, 16)]
                same = all(r[1] == res[0][1] and r[1] for r in res) and all(r[0] == res[0][0] for r in res)
                report.append({'property': prop, 'seed': seed, 'runs_per_batch': RUNS[prop], 'batches': len(res[0][1]),
                               'worker_counts': [16, 3, 16], 'identical': same, 'fingerprints': res[0][1]})
                print(('same  ' if same else 'DIFFER'), prop, 'seed', seed, *[f.split()[-1] for f in res[0][1]])
                if not same:
                    bad += 1
                    for r in res:
                        print('   ', r)
    finally:
        shutil.rmtree(evdir, ignore_errors=True)
    os.makedirs('/verif/selftest', exist_ok=True)
    json.dump({'what': __doc__, 'wall_s': time.time() - t0, 'nondeterministic': bad, 'results': report},
              open('/verif/selftest/determinism.json', 'w'), indent=1)
    if bad:
        print('HARNESS-ERROR: nondeterminism in %d (property, seed) pairs' % bad, file=sys.stderr)
        return 2
    print('selftest: OK (%d property/seed pairs, 3 executions each, %.0fs)' % (len(report), time.time() - t0))
    return 0

sys.exit(main())
