#!/usr/bin/env python3
"""Run the checks against the seeded property-breaking changes in /verif/seeded/<id>/patch.diff.
For each: apply to /repo (which must be clean), run `./check <property> <tier>` for the property the
change targets (plus any listed under "also_run" in meta.json), record whether a VIOLATION line was
printed and how long it took, then undo the change. Writes /verif/seeded/RESULTS.json.
usage: tools/seeded.py [tier] [id ...]"""
import json, os, subprocess, sys, time, glob

def sh(cmd, **kw):
    return subprocess.run(cmd, shell=True, capture_output=True, text=True, **kw)

def main():
    args = sys.argv[1:]
    tier = 'quick'
    if args and args[0] in ('quick', 'thorough'):
        tier = args.pop(0)
    ids = args or sorted(os.path.basename(os.path.dirname(p)) for p in glob.glob('/verif/seeded/*/patch.diff'))
    if sh('git -C /repo status --porcelain').stdout.strip():
        print('refusing: /repo working tree is not clean', file=sys.stderr)
        return 2
    path = '/verif/seeded/RESULTS.json'
    results = json.load(open(path)) if os.path.exists(path) else {}
    env = dict(os.environ, VERIF_EVIDENCE_DIR='/tmp/ecsim-seeded-evidence', VERIF_REPLAY_DIR='/tmp/ecsim-seeded-replays')
    for mid in ids:
        d = '/verif/seeded/' + mid
        meta = json.load(open(d + '/meta.json'))
        props = [meta['property']] + meta.get('also_run', [])
        ap = sh('git -C /repo apply %s/patch.diff' % d)
        if ap.returncode != 0:
            print(mid, 'patch does not apply:', ap.stderr.strip())
            results[mid] = {'applies': False}
            continue
        try:
            r = {'applies': True, 'tier': tier, 'checks': {}}
            for p in props:
                t0 = time.time()
                c = subprocess.run(['/verif/check', p, tier], capture_output=True, text=True, env=env)
                viol = [l for l in c.stdout.splitlines() if l.startswith('VIOLATION')]
                first = [l for l in c.stdout.splitlines() if l.startswith('violation:')][:2]
                r['checks'][p] = {'exit': c.returncode, 'violations': len(viol), 'first': [f[:300] for f in first], 'wall_s': round(time.time() - t0, 1)}
                if c.returncode == 2:
                    r['checks'][p]['stderr'] = c.stderr[-600:]
            r['caught_by'] = [p for p, v in r['checks'].items() if v['exit'] == 1 and v['violations'] > 0]
            r['caught'] = bool(r['caught_by'])
            results[mid] = r
            print(mid, 'CAUGHT by ' + ','.join(r['caught_by']) if r['caught'] else 'MISSED', {p: (v['exit'], v['wall_s']) for p, v in r['checks'].items()})
        finally:
            sh('git -C /repo checkout -- .')
        json.dump(results, open(path, 'w'), indent=1, sort_keys=True)
    sh('rm -rf /tmp/ecsim-seeded-evidence /tmp/ecsim-seeded-replays')
    return 0

sys.exit(main())
